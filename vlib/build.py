"""In-process driver for nanoemoji's font generation (the anchored API), used by the API-level checks.

build_font() does what `python -m nanoemoji.write_font` does after argument parsing:
InputGlyph list -> write_font._generate_color_font -> save -> reload from bytes.
"""
import io
import os
import tempfile
from pathlib import Path

_inited = False


def init():
    global _inited
    if _inited:
        return
    from absl import flags, logging

    try:
        flags.FLAGS(["verif"])
    except Exception:
        pass
    logging.set_verbosity(logging.ERROR)
    import logging as pylog

    pylog.getLogger("fontTools").setLevel(pylog.ERROR)
    pylog.getLogger("ufo2ft").setLevel(pylog.ERROR)
    pylog.getLogger("picosvg").setLevel(pylog.ERROR)
    _inited = True


_base_cfg = None


def base_config():
    global _base_cfg
    init()
    if _base_cfg is None:
        from nanoemoji import config

        _base_cfg = config.load()
    return _base_cfg


def make_config(cfg):
    """cfg: JSON-able dict of FontConfig fields (transform as 6-list)."""
    from picosvg.svg_transform import Affine2D

    kw = dict(cfg)
    if "transform" in kw and not isinstance(kw["transform"], Affine2D):
        kw["transform"] = Affine2D(*kw["transform"])
    fmt = kw.get("color_format", "glyf_colr_1")
    if "output_file" not in kw:
        kw["output_file"] = "Font.otf" if fmt.startswith("cff") else "Font.ttf"
    return base_config()._replace(**kw)


class BuildResult:
    def __init__(self, font=None, data=None, error=None, cfg=None, names=None):
        self.font = font
        self.data = data
        self.error = error  # exception instance raised by the code under test
        self.cfg = cfg
        self.names = names


def default_name(cps):
    from nanoemoji.glyph import glyph_name

    return glyph_name(tuple(cps))


def build_font(cfg, sources, fea="auto", reload=True):
    """sources: list of dicts {"svg": text or None, "png": bytes or None, "cps": [..], "name": optional, "file": optional}.

    Returns BuildResult; exceptions raised by nanoemoji/fontTools during generation are captured in .error.
    """
    init()
    from fontTools.ttLib import TTFont
    from nanoemoji import features, write_font
    from nanoemoji.png import PNG
    from picosvg.svg import SVG

    fea_path = None
    try:
        inputs = []
        names = []
        seqs = []
        for i, s in enumerate(sources):
            cps = tuple(s["cps"])
            name = s.get("name") or default_name(cps)
            names.append(name)
            seqs.append(cps)
        kw = dict(cfg)
        if fea == "auto":
            fd, fea_path = tempfile.mkstemp(prefix="nanoverif-", suffix=".fea")
            with os.fdopen(fd, "w") as f:
                # as the write_fea step does: with a custom glyph map the names travel with the sequences
                custom = any(s_.get("name") for s_ in sources)
                f.write(features.generate_fea(dict(zip(seqs, names)) if custom else seqs))
            kw["fea_file"] = fea_path
        elif fea is None:
            kw["fea_file"] = ""
        else:
            fd, fea_path = tempfile.mkstemp(prefix="nanoverif-", suffix=".fea")
            with os.fdopen(fd, "w") as f:
                f.write(fea)
            kw["fea_file"] = fea_path
        config = make_config(kw)
        try:
            for i, s in enumerate(sources):
                svg = SVG.fromstring(s["svg"]) if s.get("svg") is not None else None
                png = PNG(s["png"]) if s.get("png") is not None else None
                fname = s.get("file") or ("src%d.svg" % i)
                inputs.append(
                    write_font.InputGlyph(
                        Path(fname) if svg is not None else None,
                        Path(fname).with_suffix(".png") if png is not None else None,
                        tuple(s["cps"]),
                        names[i],
                        svg,
                        png,
                    )
                )
            ufo, font = write_font._generate_color_font(config, inputs)
            buf = io.BytesIO()
            font.save(buf)
            data = buf.getvalue()
        except Exception as e:  # raised by the code under test (or its libraries on its behalf)
            return BuildResult(error=e, cfg=config, names=names)
        if reload:
            font = TTFont(io.BytesIO(data), lazy=False)
        return BuildResult(font=font, data=data, cfg=config, names=names)
    finally:
        if fea_path:
            try:
                os.unlink(fea_path)
            except OSError:
                pass


def errname(e):
    return type(e).__name__
