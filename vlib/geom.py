"""Small 2-D geometry kit for the reference interpreters (pure Python, no numpy).

Affines are 6-tuples (a, b, c, d, e, f):  x' = a x + c y + e ;  y' = b x + d y + f   (SVG / fontTools order).
"""
import math
import re

from fontTools.pens.basePen import decomposeQuadraticSegment

I = (1.0, 0.0, 0.0, 1.0, 0.0, 0.0)


def amul(m2, m1):
    """Apply m1 first, then m2."""
    a1, b1, c1, d1, e1, f1 = m1
    a2, b2, c2, d2, e2, f2 = m2
    return (
        a2 * a1 + c2 * b1,
        b2 * a1 + d2 * b1,
        a2 * c1 + c2 * d1,
        b2 * c1 + d2 * d1,
        a2 * e1 + c2 * f1 + e2,
        b2 * e1 + d2 * f1 + f2,
    )


def achain(*ms):
    """Compose left to right: first ms[0], then ms[1] …"""
    out = I
    for m in ms:
        out = amul(m, out)
    return out


def aapply(m, p):
    a, b, c, d, e, f = m
    x, y = p
    return (a * x + c * y + e, b * x + d * y + f)


def adet(m):
    return m[0] * m[3] - m[1] * m[2]


def ainv(m):
    a, b, c, d, e, f = m
    det = a * d - b * c
    if det == 0:
        raise ZeroDivisionError("singular affine")
    ia, ib, ic, id_ = d / det, -b / det, -c / det, a / det
    return (ia, ib, ic, id_, -(ia * e + ic * f), -(ib * e + id_ * f))


def anorm(m):
    """Operator 2-norm of the linear part."""
    a, b, c, d = m[:4]
    s1 = a * a + b * b + c * c + d * d
    s2 = math.sqrt(max(0.0, (a * a + b * b - c * c - d * d) ** 2 + 4 * (a * c + b * d) ** 2))
    return math.sqrt(max(0.0, (s1 + s2) / 2))


def translate(tx, ty):
    return (1.0, 0.0, 0.0, 1.0, tx, ty)


def scale(sx, sy=None):
    return (sx, 0.0, 0.0, sx if sy is None else sy, 0.0, 0.0)


def rotate(deg, cx=0.0, cy=0.0):
    r = math.radians(deg)
    c, s = math.cos(r), math.sin(r)
    t = (c, s, -s, c, 0.0, 0.0)
    if cx or cy:
        t = achain(translate(-cx, -cy), t, translate(cx, cy))
    return t


def skew(xdeg, ydeg):
    return (1.0, math.tan(math.radians(ydeg)), math.tan(math.radians(xdeg)), 1.0, 0.0, 0.0)


_TR = re.compile(r"(matrix|translate|scale|rotate|skewX|skewY)\s*\(([^)]*)\)")


def parse_transform(s):
    """SVG transform attribute -> affine (transform list applies right to left onto points)."""
    m = I
    for op, args in _TR.findall(s or ""):
        v = [float(x) for x in re.split(r"[\s,]+", args.strip()) if x]
        if op == "matrix":
            t = tuple(v)
        elif op == "translate":
            t = translate(v[0], v[1] if len(v) > 1 else 0.0)
        elif op == "scale":
            t = scale(v[0], v[1] if len(v) > 1 else v[0])
        elif op == "rotate":
            t = rotate(v[0], *(v[1:3] if len(v) == 3 else ()))
        elif op == "skewX":
            t = skew(v[0], 0)
        else:
            t = skew(0, v[0])
        m = amul(m, t)
    return m


# ----------------------------------------------------------------------------- curves
FLAT_TOL = 0.05


def _nseg_cubic(p0, p1, p2, p3, tol):
    dd = max(
        math.hypot(p0[0] - 2 * p1[0] + p2[0], p0[1] - 2 * p1[1] + p2[1]),
        math.hypot(p1[0] - 2 * p2[0] + p3[0], p1[1] - 2 * p2[1] + p3[1]),
    )
    return max(1, min(400, int(math.ceil(math.sqrt(0.75 * dd / tol)))))


def _nseg_quad(p0, p1, p2, tol):
    dd = math.hypot(p0[0] - 2 * p1[0] + p2[0], p0[1] - 2 * p1[1] + p2[1])
    return max(1, min(400, int(math.ceil(math.sqrt(0.25 * dd / tol)))))


def segments(rec_value, m=I):
    """RecordingPen value -> list of contours, each a list of segments in absolute mapped coordinates:
    ("L", p0, p1) | ("Q", p0, c, p1) | ("C", p0, c1, c2, p1); contours are closed explicitly."""
    contours = []
    cur = None
    start = None
    last = None

    def close():
        nonlocal cur, start, last
        if cur is not None:
            if last is not None and start is not None and last != start:
                cur.append(("L", last, start))
            if cur:
                contours.append(cur)
        cur = None
        start = None
        last = None

    for op, args in rec_value:
        if op == "moveTo":
            close()
            cur = []
            start = last = aapply(m, args[0])
        elif op == "lineTo":
            p = aapply(m, args[0])
            cur.append(("L", last, p))
            last = p
        elif op == "curveTo":
            pts = [aapply(m, p) for p in args]
            if len(pts) == 3:
                cur.append(("C", last, pts[0], pts[1], pts[2]))
                last = pts[2]
            elif len(pts) == 2:
                cur.append(("Q", last, pts[0], pts[1]))
                last = pts[1]
            else:
                raise NotImplementedError("super-bezier")
        elif op == "qCurveTo":
            raw = list(args)
            if raw[-1] is None:
                raw = raw[:-1]
                st = ((raw[-1][0] + raw[0][0]) / 2.0, (raw[-1][1] + raw[0][1]) / 2.0)
                if cur is None:
                    cur = []
                if start is None:
                    start = last = aapply(m, st)
                raw = raw + [st]
            for c1, p2 in decomposeQuadraticSegment(raw):
                c1 = aapply(m, c1)
                p2 = aapply(m, p2)
                cur.append(("Q", last, c1, p2))
                last = p2
        elif op in ("closePath", "endPath"):
            close()
        else:
            raise NotImplementedError(op)
    close()
    return contours


def flatten_segments(contours, tol=FLAT_TOL):
    out = []
    for segs in contours:
        if not segs:
            continue
        pts = [segs[0][1]]
        for s in segs:
            if s[0] == "L":
                pts.append(s[2])
            elif s[0] == "Q":
                p0, c, p1 = s[1:]
                n = _nseg_quad(p0, c, p1, tol)
                for i in range(1, n + 1):
                    t = i / n
                    mt = 1 - t
                    pts.append(
                        (mt * mt * p0[0] + 2 * mt * t * c[0] + t * t * p1[0], mt * mt * p0[1] + 2 * mt * t * c[1] + t * t * p1[1])
                    )
            else:
                p0, c1, c2, p1 = s[1:]
                n = _nseg_cubic(p0, c1, c2, p1, tol)
                for i in range(1, n + 1):
                    t = i / n
                    mt = 1 - t
                    a, b, c_, d = mt * mt * mt, 3 * mt * mt * t, 3 * mt * t * t, t * t * t
                    pts.append(
                        (a * p0[0] + b * c1[0] + c_ * c2[0] + d * p1[0], a * p0[1] + b * c1[1] + c_ * c2[1] + d * p1[1])
                    )
        if pts[0] != pts[-1]:
            pts.append(pts[0])
        out.append(pts)
    return out


def flatten(rec_value, m=I, tol=FLAT_TOL):
    return flatten_segments(segments(rec_value, m), tol)


def _quad_extrema(p0, c, p1):
    ts = []
    d = p0 - 2 * c + p1
    if d != 0:
        t = (p0 - c) / d
        if 0 < t < 1:
            ts.append(t)
    return ts


def _cubic_extrema(p0, c1, c2, p1):
    a = -p0 + 3 * c1 - 3 * c2 + p1
    b = 2 * (p0 - 2 * c1 + c2)
    c = -p0 + c1
    ts = []
    # derivative a t^2 + b t + c: the cancellation-free form of the quadratic formula (a symmetric arc has a ~ 1e-13, where
    # (-b + sqrt(disc)) / 2a loses every digit and the extremum was missed)
    if abs(a) <= 1e-12 * max(abs(b), abs(c), 1e-300):
        if b != 0:
            ts.append(-c / b)
    else:
        disc = b * b - 4 * a * c
        if disc >= 0:
            q = -0.5 * (b + math.copysign(math.sqrt(disc), b))
            if q != 0:
                ts += [q / a, c / q]
            else:
                ts.append(0.0)
    return [t for t in ts if 0 < t < 1]


def exact_bounds(contours_segs):
    """Exact bounds (curve extrema, not control points) of segment contours; None if empty."""
    xs, ys = [], []
    for segs in contours_segs:
        for s in segs:
            if s[0] == "L":
                pts = [s[1], s[2]]
            elif s[0] == "Q":
                p0, c, p1 = s[1:]
                pts = [p0, p1]
                for ax in (0, 1):
                    for t in _quad_extrema(p0[ax], c[ax], p1[ax]):
                        mt = 1 - t
                        pts.append(
                            (mt * mt * p0[0] + 2 * mt * t * c[0] + t * t * p1[0], mt * mt * p0[1] + 2 * mt * t * c[1] + t * t * p1[1])
                        )
            else:
                p0, c1, c2, p1 = s[1:]
                pts = [p0, p1]
                for ax in (0, 1):
                    for t in _cubic_extrema(p0[ax], c1[ax], c2[ax], p1[ax]):
                        mt = 1 - t
                        a, b, c_, d = mt * mt * mt, 3 * mt * mt * t, 3 * mt * t * t, t * t * t
                        pts.append(
                            (a * p0[0] + b * c1[0] + c_ * c2[0] + d * p1[0], a * p0[1] + b * c1[1] + c_ * c2[1] + d * p1[1])
                        )
            for p in pts:
                xs.append(p[0])
                ys.append(p[1])
    if not xs:
        return None
    return (min(xs), min(ys), max(xs), max(ys))


def bbox(contours):
    xs = [p[0] for c in contours for p in c]
    ys = [p[1] for c in contours for p in c]
    if not xs:
        return None
    return (min(xs), min(ys), max(xs), max(ys))


def seg_dist2(px, py, ax, ay, bx, by):
    dx, dy = bx - ax, by - ay
    L = dx * dx + dy * dy
    if L == 0:
        ex, ey = px - ax, py - ay
        return ex * ex + ey * ey
    t = ((px - ax) * dx + (py - ay) * dy) / L
    if t < 0:
        t = 0.0
    elif t > 1:
        t = 1.0
    ex, ey = px - (ax + t * dx), py - (ay + t * dy)
    return ex * ex + ey * ey


def resample(contours, step):
    pts = []
    for c in contours:
        for a, b in zip(c, c[1:]):
            L = math.hypot(b[0] - a[0], b[1] - a[1])
            k = max(1, int(L / step))
            for i in range(k):
                pts.append((a[0] + (b[0] - a[0]) * i / k, a[1] + (b[1] - a[1]) * i / k))
    return pts


def one_way(A, B, step, good=0.0):
    """max over sample points of A of the distance to polyline set B. Distances below `good` are not refined."""
    segs = [(a[0], a[1], b[0], b[1]) for c in B for a, b in zip(c, c[1:])]
    if not segs:
        return float("inf") if any(A) else 0.0
    worst = 0.0
    good2 = good * good
    hint = 0
    n = len(segs)
    for px, py in resample(A, step):
        # start the search near the previous best segment: neighbouring samples are usually close to it
        best = seg_dist2(px, py, *segs[hint])
        if best > good2:
            for i in range(n):
                d = seg_dist2(px, py, *segs[i])
                if d < best:
                    best = d
                    hint = i
                    if best <= good2:
                        break
        if best > worst:
            worst = best
    return math.sqrt(worst)


def hausdorff(A, B, good=0.0, nsamples=60):
    bb = bbox(A + B)
    if bb is None:
        return 0.0
    if not A or not B:
        return float("inf")
    diag = math.hypot(bb[2] - bb[0], bb[3] - bb[1]) or 1.0
    step = diag / nsamples
    return max(one_way(A, B, step, good), one_way(B, A, step, good))


def winding(contours, p):
    w = 0
    x, y = p
    for c in contours:
        for (x0, y0), (x1, y1) in zip(c, c[1:]):
            if y0 <= y:
                if y1 > y and (x1 - x0) * (y - y0) - (x - x0) * (y1 - y0) > 0:
                    w += 1
            elif y1 <= y and (x1 - x0) * (y - y0) - (x - x0) * (y1 - y0) < 0:
                w -= 1
    return w


def dist_to_contours(contours, p):
    best = float("inf")
    for c in contours:
        for a, b in zip(c, c[1:]):
            d = seg_dist2(p[0], p[1], a[0], a[1], b[0], b[1])
            if d < best:
                best = d
    return math.sqrt(best)


def area(contours):
    s = 0.0
    for c in contours:
        for (x0, y0), (x1, y1) in zip(c, c[1:]):
            s += x0 * y1 - x1 * y0
    return s / 2.0


def map_contours(contours, m):
    return [[aapply(m, p) for p in c] for c in contours]
