"""Runner shared by all property checks.

  python -m vlib.runner <ID> [--tier quick|thorough] [--replay FILE] [--workers N] [--examples N]

A property module (vlib/props/cNN.py) provides

  ID, RULE, ASSUMPTIONS (list of str)
  cases(tier)              -> Hypothesis strategy of JSON-able dicts (the concrete case)
  judge(case)              -> vlib.verdict.Verdict  (never raises for a property failure)
  BUDGET = {"quick": n, "thorough": n}     total generated examples over all workers
  TIMEOUT = {"quick": s, "thorough": s}    safety net; hitting it is exit 2 (inconclusive)
  optional: enumerate_cases(tier) -> iterable of cases judged besides the generated ones
            (sharded over the workers; EXHAUSTIVE=True marks a complete finite enumeration)
            shrink(case) -> iterable of smaller candidate cases (greedy structural ddmin)
            sample_repr(case) -> JSON-able compact form for evidence samples
            setup_worker()   -> called once per worker process

Exit codes: 0 held (maybe KNOWN-FINDING lines), 1 VIOLATION line(s), 2 harness error / inconclusive.
"""
import argparse
import hashlib
import importlib
import json
import multiprocessing as mp
import os
import re
import sys
import tempfile
import time
import traceback

HOME = os.environ.get("VERIF_HOME") or os.path.dirname(os.path.dirname(os.path.abspath(__file__)))
NWORKERS_DEFAULT = min(16, os.cpu_count() or 1)


class HarnessError(Exception):
    pass


def canon(case):
    return json.dumps(case, sort_keys=True, separators=(",", ":"), default=str, ensure_ascii=True)


def sha(case):
    return hashlib.sha1(canon(case).encode()).hexdigest()


# --------------------------------------------------------------------------- known findings
def load_known(prop_id):
    path = os.path.join(HOME, "known_findings.json")
    if not os.path.exists(path):
        return []
    with open(path) as f:
        data = json.load(f)
    return [e for e in data.get("findings", []) if e.get("property") == prop_id and e.get("status") == "open"]


def match_known(known, kind, key):
    for e in known:
        if e.get("kind") == kind and re.fullmatch(e.get("key_regex", ".*"), key, flags=re.S):
            return e
    return None


# --------------------------------------------------------------------------- per-process state
class Stats:
    def __init__(self):
        self.evaluations = 0
        self.nontrivial = set()
        self.classes = {}
        self.rejected = {}
        self.discarded = {}
        self.known_hits = {}
        self.max_margin = 0.0
        self.margin_case = None
        self.samples = []
        self.buckets = {}  # (kind,key) -> {"case":…, "detail":…, "count":n}
        self.extra = {}

    def to_json(self):
        return {
            "evaluations": self.evaluations,
            "nontrivial": sorted(self.nontrivial),
            "classes": self.classes,
            "rejected": self.rejected,
            "discarded": self.discarded,
            "known_hits": self.known_hits,
            "max_margin": self.max_margin,
            "margin_case": self.margin_case,
            "samples": self.samples,
            "buckets": [
                {"kind": k[0], "key": k[1], "case": v["case"], "detail": v["detail"], "count": v["count"]}
                for k, v in self.buckets.items()
            ],
            "extra": self.extra,
        }


def _sample_of(mod, case):
    fn = getattr(mod, "sample_repr", None)
    s = fn(case) if fn else case
    text = canon(s)
    if len(text) > 3000:
        return {"truncated_json": text[:3000]}
    return s


def handle(mod, case, stats, known, origin="generated"):
    """Judge one case and fold the verdict into stats."""
    try:
        v = mod.judge(case)
    except HarnessError:
        raise
    except Exception as e:  # an exception escaping judge() is an oracle/harness bug, never a violation
        raise HarnessError(
            "oracle raised %s: %s\ncase: %s\n%s" % (type(e).__name__, e, canon(case)[:4000], traceback.format_exc())
        )
    stats.evaluations += 1 + v.extra_evals
    for c in v.classes:
        stats.classes[c] = stats.classes.get(c, 0) + 1
    for k, n in v.extra.items():
        stats.extra[k] = max(stats.extra.get(k, 0), n) if k.startswith("max_") else stats.extra.get(k, 0) + n
    if v.discard:
        stats.discarded[v.discard] = stats.discarded.get(v.discard, 0) + 1
        return v
    if v.rejected:
        stats.rejected[v.rejected] = stats.rejected.get(v.rejected, 0) + 1
        want = os.environ.get("VERIF_DUMP_REJECTED")  # debugging aid: keep the cases whose refusal reason contains this text
        if want and want in str(v.rejected):
            d = os.path.join(os.environ.get("TMPDIR", "/tmp"), "verif-rejected")
            os.makedirs(d, exist_ok=True)
            with open(os.path.join(d, "%s-%s.json" % (getattr(mod, "ID", "X"), sha(case)[:12])), "w") as f:
                json.dump({"rejected": v.rejected, "case": case}, f)
    if v.margin > stats.max_margin:
        stats.max_margin = v.margin
        stats.margin_case = sha(case)
    h = sha(case)
    if v.nontrivial:
        stats.nontrivial.add(h[:16])
        if len(stats.samples) < 3:
            stats.samples.append(_sample_of(mod, case))
    for kind, key, detail in v.failures:
        e = match_known(known, kind, key)
        if e is not None:
            stats.known_hits[e["id"]] = stats.known_hits.get(e["id"], 0) + 1
            continue
        b = stats.buckets.setdefault((kind, key), {"case": case, "detail": detail, "count": 0, "origin": origin})
        b["count"] += 1
    return v


def corpus_cases(prop_id):
    d = os.path.join(HOME, "corpus", prop_id)
    out = []
    if os.path.isdir(d):
        for n in sorted(os.listdir(d)):
            if n.endswith(".json"):
                with open(os.path.join(d, n)) as f:
                    data = json.load(f)
                out.append((n, data["case"] if "case" in data else data))
    return out


def worker_main(mod_name, tier, seed, widx, nworkers, n_examples, outpath):
    t0 = time.time()
    result = {"ok": False}
    try:
        import hypothesis
        from hypothesis import HealthCheck, Phase, given, settings

        mod = importlib.import_module(mod_name)
        if hasattr(mod, "setup_worker"):
            mod.setup_worker()
        known = load_known(mod.ID)
        stats = Stats()
        # corpus (regression inputs) – worker 0 only
        if widx == 0:
            for name, case in corpus_cases(mod.ID):
                handle(mod, case, stats, known, origin="corpus:" + name)
                stats.classes["corpus"] = stats.classes.get("corpus", 0) + 1
        # enumerated cases, sharded
        enum = getattr(mod, "enumerate_cases", None)
        if enum is not None:
            for i, case in enumerate(enum(tier)):
                if i % nworkers == widx:
                    handle(mod, case, stats, known, origin="enumerated")
        # generated cases
        if n_examples > 0:
            strat = mod.cases(tier)

            # Hypothesis always starts a run with the simplest possible example; with 16 workers that would be 16 copies of
            # the trivial case, so every worker generates one example more and does not judge its first one.
            counter = {"n": 0}

            @hypothesis.seed(seed * 1000 + widx)
            @settings(
                max_examples=n_examples + 1,
                database=None,
                deadline=None,
                derandomize=False,
                report_multiple_bugs=False,
                phases=[Phase.generate],
                suppress_health_check=list(HealthCheck),
            )
            @given(strat)
            def run(case):
                counter["n"] += 1
                if counter["n"] == 1:
                    return
                handle(mod, case, stats, known)

            run()
        result = {"ok": True, "stats": stats.to_json(), "wall": time.time() - t0}
    except BaseException as e:  # noqa
        result = {"ok": False, "error": "%s: %s" % (type(e).__name__, e), "trace": traceback.format_exc()}
    with open(outpath, "w") as f:
        json.dump(result, f)


# --------------------------------------------------------------------------- shrinking
def shrink_bucket(mod, known, case, kind, key, max_calls):
    fn = getattr(mod, "shrink", None)
    if fn is None:
        return case
    calls = 0
    improved = True
    while improved and calls < max_calls:
        improved = False
        for cand in fn(case):
            calls += 1
            if calls > max_calls:
                break
            try:
                v = mod.judge(cand)
            except Exception:
                continue
            if any(k == kind and kk == key for k, kk, _ in v.failures):
                case = cand
                improved = True
                break
    return case


# --------------------------------------------------------------------------- main
def write_evidence(mod, tier, seed, merged, wall, violations, exhaustive):
    os.makedirs(os.path.join(HOME, "evidence"), exist_ok=True)
    cov = {
        "evaluations": merged["evaluations"],
        "distinct_nontrivial": len(merged["nontrivial"]),
        "rule": mod.RULE,
        "samples": merged["samples"][:5],
        "class_histogram": dict(sorted(merged["classes"].items())),
        "rejected_by_code": merged["rejected"],
        "discarded": merged["discarded"],
        "known_finding_hits": merged["known_hits"],
        "max_margin": round(merged["max_margin"], 4),
    }
    if merged["extra"]:
        cov["extra"] = merged["extra"]
    if exhaustive:
        cov["exhaustive"] = True
    ev = {
        "property_id": mod.ID,
        "tier": tier,
        "seed": seed,
        "level": getattr(mod, "LEVEL", "exploration"),
        "coverage": cov,
        "assumptions": list(getattr(mod, "ASSUMPTIONS", [])),
        "wall_s": round(wall, 2),
        "violations": violations,
    }
    path = os.path.join(HOME, "evidence", mod.ID + ".json")
    tmp = path + ".tmp"
    with open(tmp, "w") as f:
        json.dump(ev, f, indent=1, sort_keys=True, default=str)
    os.replace(tmp, path)


def save_replay(mod, tier, seed, kind, key, case, detail):
    d = os.path.join(HOME, "replays", mod.ID)
    os.makedirs(d, exist_ok=True)
    path = os.path.join(d, sha({"c": case, "k": kind})[:16] + ".json")
    with open(path, "w") as f:
        json.dump(
            {"property": mod.ID, "kind": kind, "key": key, "detail": detail, "tier": tier, "seed": seed, "case": case},
            f,
            indent=1,
            default=str,
        )
    return os.path.relpath(path, HOME)


def main(argv=None):
    ap = argparse.ArgumentParser()
    ap.add_argument("prop")
    ap.add_argument("--tier", default=os.environ.get("VERIF_TIER") or "quick", choices=["quick", "thorough"])
    ap.add_argument("--replay")
    ap.add_argument("--workers", type=int, default=int(os.environ.get("VERIF_WORKERS", NWORKERS_DEFAULT)))
    ap.add_argument("--examples", type=int, default=None, help="override total generated examples")
    ap.add_argument("--no-evidence", action="store_true")
    args = ap.parse_args(argv)
    prop = args.prop.upper()
    seed = int(os.environ.get("VERIF_SEED") or "1")
    mod_name = "vlib.props." + prop.lower()
    t0 = time.time()
    try:
        mod = importlib.import_module(mod_name)
        if hasattr(mod, "setup_worker"):
            mod.setup_worker()
    except Exception:
        print("HARNESS-ERROR importing %s\n%s" % (mod_name, traceback.format_exc()))
        return 2
    known = load_known(prop)

    # ---- replay mode: judge one stored case with the oracle only
    if args.replay:
        with open(args.replay) as f:
            data = json.load(f)
        case = data["case"] if "case" in data else data
        try:
            v = mod.judge(case)
        except Exception:
            print("HARNESS-ERROR in oracle during replay\n" + traceback.format_exc())
            return 2
        bad = 0
        for kind, key, detail in v.failures:
            e = match_known(known, kind, key)
            if e is not None:
                print("KNOWN-FINDING: property=%s %s [%s]" % (prop, e["what"], e["id"]))
            else:
                bad += 1
                print("  failure kind=%s key=%s detail=%s" % (kind, key, json.dumps(detail, default=str)[:1500]))
        if bad:
            print("VIOLATION property=%s replay=%s" % (prop, args.replay))
            return 1
        print("replay: property held (rejected=%s discard=%s)" % (v.rejected, v.discard))
        return 0

    # ---- known findings: replay the stored input of each open finding
    known_lines = []
    for e in known:
        rp = os.path.join(HOME, e["replay"])
        try:
            with open(rp) as f:
                data = json.load(f)
            v = mod.judge(data["case"] if "case" in data else data)
        except Exception:
            print("HARNESS-ERROR replaying known finding %s\n%s" % (e["id"], traceback.format_exc()))
            return 2
        if any(match_known([e], k, kk) for k, kk, _ in v.failures):
            known_lines.append("KNOWN-FINDING: property=%s %s [%s]" % (prop, e["what"], e["id"]))
        else:
            known_lines.append("NOTE: known finding %s no longer reproduces on this tree" % e["id"])

    # ---- generated / enumerated search on all workers
    total = args.examples if args.examples is not None else mod.BUDGET[args.tier]
    nworkers = max(1, min(args.workers, max(1, total))) if getattr(mod, "enumerate_cases", None) is None else args.workers
    nworkers = max(1, min(nworkers, getattr(mod, "MAX_WORKERS", 64)))
    per = [total // nworkers + (1 if i < total % nworkers else 0) for i in range(nworkers)]
    timeout = getattr(mod, "TIMEOUT", {}).get(args.tier, 3600)
    ctx = mp.get_context("fork")
    tmpd = tempfile.mkdtemp(prefix="nanoverif-run-")
    procs = []
    for i in range(nworkers):
        out = os.path.join(tmpd, "w%d.json" % i)
        p = ctx.Process(target=worker_main, args=(mod_name, args.tier, seed, i, nworkers, per[i], out))
        p.start()
        procs.append((p, out))
    deadline = t0 + timeout
    timed_out = False
    for p, _ in procs:
        p.join(max(0.1, deadline - time.time()))
        if p.is_alive():
            timed_out = True
    if timed_out:
        for p, _ in procs:
            if p.is_alive():
                p.kill()
        print("INCONCLUSIVE: safety timeout of %ss hit (not a violation)" % timeout)
        _cleanup(tmpd)
        return 2
    merged = {
        "evaluations": 0,
        "nontrivial": set(),
        "classes": {},
        "rejected": {},
        "discarded": {},
        "known_hits": {},
        "max_margin": 0.0,
        "samples": [],
        "extra": {},
    }
    buckets = {}
    for p, out in procs:
        if not os.path.exists(out):
            print("HARNESS-ERROR worker died without result (exit code %s)" % p.exitcode)
            _cleanup(tmpd)
            return 2
        with open(out) as f:
            r = json.load(f)
        if not r["ok"]:
            print("HARNESS-ERROR in worker: %s\n%s" % (r["error"], r.get("trace", "")))
            _cleanup(tmpd)
            return 2
        s = r["stats"]
        merged["evaluations"] += s["evaluations"]
        merged["nontrivial"].update(s["nontrivial"])
        for name in ("classes", "rejected", "discarded", "known_hits"):
            for k, n in s[name].items():
                merged[name][k] = merged[name].get(k, 0) + n
        for k, n in s["extra"].items():
            merged["extra"][k] = max(merged["extra"].get(k, 0), n) if k.startswith("max_") else merged["extra"].get(k, 0) + n
        merged["max_margin"] = max(merged["max_margin"], s["max_margin"])
        for smp in s["samples"]:
            if len(merged["samples"]) < 5:
                merged["samples"].append(smp)
        for b in s["buckets"]:
            k = (b["kind"], b["key"])
            if k not in buckets:
                buckets[k] = dict(b)
            else:
                buckets[k]["count"] += b["count"]
    _cleanup(tmpd)

    # ---- report
    for line in known_lines:
        print(line)
    nviol = 0
    max_calls = 40 if args.tier == "quick" else 400
    for (kind, key), b in sorted(buckets.items()):
        case = b["case"]
        try:
            case = shrink_bucket(mod, known, case, kind, key, max_calls)
        except Exception:
            pass
        path = save_replay(mod, args.tier, seed, kind, key, case, b["detail"])
        nviol += 1
        print("  failure kind=%s key=%s count=%d detail=%s" % (kind, key, b["count"], json.dumps(b["detail"], default=str)[:1200]))
        print("VIOLATION property=%s replay=%s" % (prop, path))
    wall = time.time() - t0
    if not merged["samples"]:
        merged["samples"] = [{"note": "no non-trivial case in this run"}]
    if not args.no_evidence:
        write_evidence(mod, args.tier, seed, merged, wall, nviol, bool(getattr(mod, "EXHAUSTIVE", False)))
    print(
        "%s tier=%s seed=%d workers=%d evaluations=%d distinct_nontrivial=%d rejected=%s discarded=%s known_hits=%s max_margin=%.3f wall=%.1fs"
        % (
            prop,
            args.tier,
            seed,
            nworkers,
            merged["evaluations"],
            len(merged["nontrivial"]),
            merged["rejected"],
            merged["discarded"],
            merged["known_hits"],
            merged["max_margin"],
            wall,
        )
    )
    return 1 if nviol else 0


def _cleanup(d):
    import shutil

    shutil.rmtree(d, ignore_errors=True)


if __name__ == "__main__":
    sys.exit(main())
