"""Tiny TrueType fonts built with fontTools.fontBuilder for the API-level checks (C11, C12, C13, C16)."""
import io

from fontTools.fontBuilder import FontBuilder
from fontTools.pens.ttGlyphPen import TTGlyphPen
from fontTools.ttLib import TTFont


def poly_glyph(contours, components=None, glyph_set=None):
    pen = TTGlyphPen(glyph_set)
    for pts in contours:
        pen.moveTo(pts[0])
        for q in pts[1:]:
            pen.lineTo(q)
        pen.closePath()
    for name, xf in components or []:
        pen.addComponent(name, xf)
    return pen.glyph()


def _charstring(contours, width):
    from fontTools.pens.t2CharStringPen import T2CharStringPen

    pen = T2CharStringPen(width, None)
    for pts in contours:
        pen.moveTo(pts[0])
        for q in pts[1:]:
            pen.lineTo(q)
        pen.closePath()
    return pen.getCharString()


def make_cff_font(glyphs, cmap=None, upem=1000, ascender=800, descender=-200, advances=None, colr=None, colr_version=1, palettes=None):
    order = list(glyphs)
    fb = FontBuilder(upem, isTTF=False)
    fb.setupGlyphOrder(order)
    fb.setupCharacterMap(dict(cmap or {}))
    adv = {n: (advances or {}).get(n, upem) for n in order}
    fb.setupCFF("VerifMini-Regular", {"FullName": "VerifMini"}, {n: _charstring(glyphs[n][0], adv[n]) for n in order}, {})
    metrics = {}
    for n in order:
        xs = [p[0] for c in glyphs[n][0] for p in c]
        metrics[n] = (adv[n], min(xs) if xs else 0)
    fb.setupHorizontalMetrics(metrics)
    fb.setupHorizontalHeader(ascent=ascender, descent=descender)
    fb.setupOS2(sTypoAscender=ascender, sTypoDescender=descender, sTypoLineGap=0, usWinAscent=ascender, usWinDescent=-descender)
    fb.setupNameTable({"familyName": "VerifMini", "styleName": "Regular"})
    fb.setupPost()
    if colr is not None:
        fb.setupCOLR(colr, version=colr_version)
        fb.setupCPAL(palettes or [[(1, 0, 0, 1), (0, 0, 1, 1), (0, 0, 0, 1)]])
    buf = io.BytesIO()
    fb.save(buf)
    data = buf.getvalue()
    return TTFont(io.BytesIO(data), lazy=False), data


def make_font(glyphs, cmap=None, upem=1000, ascender=800, descender=-200, advances=None, colr=None, colr_version=1,
              palettes=None, names=True, clip_boxes=None):
    """glyphs: ordered dict name -> (contours, components) ; .notdef must be first. Returns reloaded TTFont and bytes."""
    order = list(glyphs)
    fb = FontBuilder(upem, isTTF=True)
    fb.setupGlyphOrder(order)
    fb.setupCharacterMap(dict(cmap or {}))
    gl = {}
    for n in order:  # simple glyphs first so that composites can refer to them
        if not glyphs[n][1]:
            gl[n] = poly_glyph(*glyphs[n])
    for n in order:
        if glyphs[n][1]:
            gl[n] = poly_glyph(glyphs[n][0], glyphs[n][1], gl)
    fb.setupGlyf(gl)
    glyf = fb.font["glyf"]
    metrics = {}
    for n in order:
        g = glyf[n]
        g.recalcBounds(glyf)
        lsb = getattr(g, "xMin", 0) if g.numberOfContours != 0 else 0
        metrics[n] = ((advances or {}).get(n, upem), lsb)
    fb.setupHorizontalMetrics(metrics)
    fb.setupHorizontalHeader(ascent=ascender, descent=descender)
    fb.setupOS2(sTypoAscender=ascender, sTypoDescender=descender, sTypoLineGap=0, usWinAscent=ascender, usWinDescent=-descender)
    fb.setupNameTable({"familyName": "VerifMini", "styleName": "Regular"})
    fb.setupPost(keepGlyphNames=names)
    if colr is not None:
        fb.setupCOLR(colr, version=colr_version, clipBoxes=clip_boxes)
        fb.setupCPAL(palettes or [[(1, 0, 0, 1), (0, 0, 1, 1), (0, 0, 0, 1)]])
    buf = io.BytesIO()
    fb.save(buf)
    data = buf.getvalue()
    return TTFont(io.BytesIO(data), lazy=False), data
