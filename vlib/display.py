"""Display trees: the meaning of a colour glyph, independent of any container format.

Node  = Group(alpha, children) | Leaf(contours, paint)
Paint = Solid(rgb | FG, alpha, pidx) | Grad(kind, geom, stops, extend, M, domain)

Grad.domain says how the extend mode unwraps the colour line:
  "svg"  - SVG semantics: the ramp lives on [0,1]; before the first / after the last stop it is flat;
           repeat/reflect tile the [0,1] interval.
  "colr" - COLR semantics: repeat/reflect tile the interval [first stop offset, last stop offset].
"""
import math

from .geom import (
    I,
    aapply,
    ainv,
    amul,
    anorm,
    bbox,
    dist_to_contours,
    exact_bounds,
    flatten_segments,
    hausdorff,
    winding,
)

FG = (-1000.0, -1000.0, -1000.0)  # sentinel "foreground colour"; compares equal only with itself


class Solid:
    __slots__ = ("rgb", "alpha", "pidx")

    def __init__(self, rgb, alpha, pidx=None):
        self.rgb = tuple(rgb)
        self.alpha = alpha
        self.pidx = pidx

    def __repr__(self):
        return "Solid(%s,%.4f,%s)" % ("FG" if self.rgb == FG else "#%02x%02x%02x" % tuple(int(v) for v in self.rgb), self.alpha, self.pidx)


class Grad:
    __slots__ = ("kind", "geom", "stops", "extend", "M", "domain", "_inv")

    def __init__(self, kind, geom, stops, extend, M=I, domain="svg"):
        self.kind = kind  # "L": geom=(p0,p1,p2)   "R": geom=(c0,r0,c1,r1)
        self.geom = geom
        self.stops = list(stops)  # [(offset, rgb, alpha)]
        self.extend = extend  # pad | repeat | reflect
        self.M = M  # gradient space -> tree space
        self.domain = domain
        self._inv = None

    def with_M(self, M):
        return Grad(self.kind, self.geom, self.stops, self.extend, M, self.domain)

    def __repr__(self):
        return "Grad(%s,%s,%s,%s,M=%s,%s)" % (self.kind, self.geom, self.stops, self.extend, tuple(round(v, 4) for v in self.M), self.domain)

    def extent(self):
        """Size of the gradient geometry in its own space (for rounding-error scaling)."""
        if self.kind == "L":
            p0, p1, _ = self.geom
            return math.hypot(p1[0] - p0[0], p1[1] - p0[1])
        c0, r0, c1, r1 = self.geom
        return abs(r1 - r0) + math.hypot(c1[0] - c0[0], c1[1] - c0[1])

    def t(self, p):
        if self._inv is None:
            self._inv = ainv(self.M)
        q = aapply(self._inv, p)
        if self.kind == "L":
            p0, p1, p2 = self.geom
            # COLR: p3 = projection of p1 onto the line through p0 perpendicular to (p2 - p0)
            nx, ny = p2[0] - p0[0], p2[1] - p0[1]
            px, py = -ny, nx
            d = (p1[0] - p0[0]) * px + (p1[1] - p0[1]) * py
            pl = px * px + py * py
            if pl == 0 or d == 0:
                return None
            vx, vy = px * d / pl, py * d / pl
            L = vx * vx + vy * vy
            return ((q[0] - p0[0]) * vx + (q[1] - p0[1]) * vy) / L
        c0, r0, c1, r1 = self.geom
        cdx, cdy = c1[0] - c0[0], c1[1] - c0[1]
        dr = r1 - r0
        pdx, pdy = q[0] - c0[0], q[1] - c0[1]
        a = cdx * cdx + cdy * cdy - dr * dr
        b = pdx * cdx + pdy * cdy + r0 * dr
        c = pdx * pdx + pdy * pdy - r0 * r0
        if abs(a) < 1e-12:
            if b == 0:
                return None
            t = c / (2 * b)
            return t if r0 + t * dr >= 0 else None
        disc = b * b - a * c
        if disc < 0:
            return None
        s = math.sqrt(disc)
        for t in sorted(((b + s) / a, (b - s) / a), reverse=True):
            if r0 + t * dr >= 0:
                return t
        return None

    # -- colour line
    def _dom(self):
        if self.domain == "colr":
            return self.stops[0][0], self.stops[-1][0]
        return 0.0, 1.0

    def color_at_t(self, t):
        return self.color_range_t(t, t, point=True)

    def _ramp(self, x):
        """Colour at ramp position x (in stop-offset units), flat outside the stops. Returns list of candidate
        colours (two at a hard stop)."""
        st = self.stops
        if x <= st[0][0]:
            out = [st[0][1] + (st[0][2],)]
            # hard stops stacked at the first offset
            i = 1
            while x == st[0][0] and i < len(st) and st[i][0] == st[0][0]:
                out.append(st[i][1] + (st[i][2],))
                i += 1
            return out
        if x >= st[-1][0]:
            out = [st[-1][1] + (st[-1][2],)]
            i = len(st) - 2
            while x == st[-1][0] and i >= 0 and st[i][0] == st[-1][0]:
                out.append(st[i][1] + (st[i][2],))
                i -= 1
            return out
        out = []
        for (o0, c0, a0), (o1, c1, a1) in zip(st, st[1:]):
            if o0 <= x <= o1:
                if o1 == o0:
                    out.append(c0 + (a0,))
                    out.append(c1 + (a1,))
                else:
                    k = (x - o0) / (o1 - o0)
                    out.append(tuple(c0[i] + (c1[i] - c0[i]) * k for i in range(3)) + (a0 + (a1 - a0) * k,))
        return out

    def color_range_t(self, lo, hi, point=False):
        """Exact per-channel range [(min,max)]*4 of the colour line over t in [lo, hi]."""
        d0, d1 = self._dom()
        cols = []
        if d1 <= d0:
            # degenerate domain: every stop colour can show
            cols = [s[1] + (s[2],) for s in self.stops]
        else:
            w = d1 - d0
            ulo, uhi = (lo - d0) / w, (hi - d0) / w
            fr = [(s[0] - d0) / w for s in self.stops] + [0.0, 1.0]

            def ramp_u(u):
                return self._ramp(d0 + u * w)

            if self.extend == "pad":
                a, b = max(0.0, min(1.0, ulo)), max(0.0, min(1.0, uhi))
                cols += ramp_u(a) + ramp_u(b)
                for f in fr:
                    if a <= f <= b:
                        cols += ramp_u(f)
            else:
                span = uhi - ulo
                if span >= (1.0 if self.extend == "repeat" else 2.0):
                    for f in fr:
                        cols += ramp_u(max(0.0, min(1.0, f)))
                else:
                    cands = [ulo, uhi]
                    k0, k1 = int(math.floor(ulo)) - 1, int(math.ceil(uhi)) + 1
                    for k in range(k0, k1 + 1):
                        for f in fr:
                            cands.append(k + f)
                            cands.append(k + 1 - f)
                    for u in cands:
                        if ulo <= u <= uhi:
                            if self.extend == "repeat":
                                fu = u - math.floor(u)
                                cols += ramp_u(fu)
                                if fu == 0.0 and not point:
                                    cols += ramp_u(1.0)  # discontinuity: both ends meet here
                                elif fu == 0.0 and point:
                                    cols += ramp_u(1.0)
                            else:
                                m = u % 2.0
                                cols += ramp_u(m if m <= 1 else 2 - m)
        if point:
            return cols[0] if cols else None
        return [(min(c[i] for c in cols), max(c[i] for c in cols)) for i in range(4)]


class Leaf:
    """An outline (exact segments, tree space) filled with a paint. Flattening happens lazily in tree space."""

    __slots__ = ("segs", "paint", "norm", "tag", "_contours", "_bounds")

    def __init__(self, segs, paint, norm=1.0, tag=None):
        self.segs = segs  # contours of ("L"|"Q"|"C", points…) segments
        self.paint = paint
        self.norm = norm  # operator norm of the linear part of the chain that placed the outline
        self.tag = tag  # provenance (glyph name / element id) for messages and reuse accounting
        self._contours = None
        self._bounds = None

    @property
    def contours(self):
        if self._contours is None:
            self._contours = flatten_segments(self.segs)
        return self._contours

    @property
    def bounds(self):
        if self._bounds is None:
            self._bounds = exact_bounds(self.segs)
        return self._bounds

    def replace_paint(self, paint):
        lf = Leaf(self.segs, paint, self.norm, self.tag)
        lf._contours, lf._bounds = self._contours, self._bounds
        return lf


def map_segs(segs, m):
    return [[(s[0],) + tuple(aapply(m, p) for p in s[1:]) for s in c] for c in segs]


class Group:
    __slots__ = ("alpha", "children")

    def __init__(self, alpha, children):
        self.alpha = alpha
        self.children = children


def leaves(nodes):
    for n in nodes:
        if isinstance(n, Group):
            yield from leaves(n.children)
        else:
            yield n


def splice(nodes):
    """Groups with alpha 1 have no meaning of their own; empty groups paint nothing."""
    out = []
    for n in nodes:
        if isinstance(n, Group):
            kids = splice(n.children)
            if not kids:
                continue
            if n.alpha == 1:
                out.extend(kids)
            else:
                out.append(Group(n.alpha, kids))
        else:
            out.append(n)
    return out


def map_paint(p, m):
    if isinstance(p, Grad):
        return p.with_M(amul(m, p.M))
    return p


def map_tree(nodes, m):
    out = []
    for n in nodes:
        if isinstance(n, Group):
            out.append(Group(n.alpha, map_tree(n.children, m)))
        else:
            out.append(Leaf(map_segs(n.segs, m), map_paint(n.paint, m), n.norm, n.tag))
    return out


def describe(nodes, depth=0):
    out = []
    for n in nodes:
        if isinstance(n, Group):
            out.append("  " * depth + "Group(%.4f)" % n.alpha)
            out += describe(n.children, depth + 1)
        else:
            bb = bbox(n.contours)
            out.append("  " * depth + "Leaf bbox=%s paint=%r norm=%.3f tag=%s" % (tuple(round(v, 2) for v in bb) if bb else None, n.paint, n.norm, n.tag))
    return out


# ------------------------------------------------------------------------------------- comparison
class Budget:
    """Tolerances derived from the encodings (DESIGN §3.2)."""

    def __init__(self, target, upem=1024, reuse_tolerance=0.0, font_scale=1.0, cff=False, extra_tau=0.0):
        self.target = target  # "colr" | "otsvg" | "exact"
        self.upem = upem
        self.reuse = max(0.0, reuse_tolerance)
        # The flag documents the tolerance in source units, the code applies it to font-unit paths: allow the larger.
        self.scale = max(1.0, font_scale)
        self.cff = cff
        self.extra_tau = extra_tau

    def tau(self, norm, leaf=None):
        L = max(1.0, norm)
        big = max(1.0, self.upem / 4096.0)
        if self.target == "colr":
            cu2qu = 0.0 if self.cff else 0.001 * self.upem
            return (0.71 + cu2qu) * L + self.reuse * self.scale + 1.0 * big + self.extra_tau
        if self.target == "otsvg":
            ext = 1.0
            if leaf is not None:
                bb = bbox(leaf.contours)
                if bb:
                    ext = max(abs(v) for v in bb) + 1.0
            return 0.0005 * 2 * ext * 3 + self.reuse * self.scale + 0.5 + self.extra_tau
        return 1e-6 + self.extra_tau

    def delta(self, norm):
        L = max(1.0, norm)
        if self.target == "colr":
            return 0.71 * L * 3 + 1.0 * max(1.0, self.upem / 4096.0)
        if self.target == "otsvg":
            return 0.5 + 0.002 * self.upem
        return 1e-6

    def eps_t(self, impl_grad, t, p=None):
        """Bound on the change of the gradient parameter caused by rounding the gradient's own geometry fields
        (integers in COLR, 3 decimals in SVG) – first-order propagation, evaluated in the gradient's own space."""
        unit = {"colr": 1.0, "otsvg": 0.002}.get(self.target)
        if unit is None:
            return 1e-9
        g = impl_grad
        if g.kind == "L":
            p0, p1, p2 = g.geom
            l1 = math.hypot(p1[0] - p0[0], p1[1] - p0[1])
            l2 = max(math.hypot(p2[0] - p0[0], p2[1] - p0[1]), 1e-9)
            cross = abs((p1[0] - p0[0]) * (p2[1] - p0[1]) - (p1[1] - p0[1]) * (p2[0] - p0[0]))
            ext = max(cross / l2, 1e-9)  # length of the effective gradient vector P3 - P0
            dv = 1.42 + 1.42 * l1 / l2  # rounding of p0/p1, plus p2's rounding turning the projection axis
            D = 0.0
            if p is not None:
                q = aapply(g._inv or ainv(g.M), p)
                D = math.hypot(q[0] - p0[0], q[1] - p0[1])
            return 2 ** -13 + unit * (0.71 + dv * (D / ext + abs(t))) / ext
        c0, r0, c1, r1 = g.geom
        ext = max((r1 - r0) - math.hypot(c1[0] - c0[0], c1[1] - c0[1]), 1e-9)
        return 2 ** -13 + unit * (1.5 + 2.5 * abs(t)) / ext

    alpha_tol = 2 ** -13 * 1.5
    eps_c = 2.0  # /255 for rgb
    eps_a = 2.0 / 255


def _probes(contours, n=7):
    bb = bbox(contours)
    if bb is None:
        return []
    x0, y0, x1, y1 = bb
    out = []
    for ix in range(n):
        for iy in range(n):
            # deterministic jitter so probes do not sit on a symmetric lattice
            jx = ((ix * 7 + iy * 3) % 5 - 2) * 0.06
            jy = ((ix * 5 + iy * 11) % 7 - 3) * 0.04
            p = (x0 + (x1 - x0) * (ix + 0.5 + jx) / n, y0 + (y1 - y0) * (iy + 0.5 + jy) / n)
            if winding(contours, p) != 0:
                out.append(p)
    return out


def color_range(ref_grad, p, delta, eps_t_fn, impl_grad, t_impl):
    """Range of colours the reference paint takes around p, widened by what field rounding allows."""
    ts = [ref_grad.t(p)]
    for k in range(16):
        ts.append(ref_grad.t((p[0] + delta * math.cos(2 * math.pi * k / 16), p[1] + delta * math.sin(2 * math.pi * k / 16))))
    if any(t is None for t in ts):
        return None
    lo, hi = min(ts), max(ts)
    w = (hi - lo) * 0.1 + eps_t_fn(impl_grad, t_impl, p)
    return ref_grad.color_range_t(lo - w, hi + w)


def compare(impl, ref, budget, path="/", res=None, stat=None):
    """Structural, layer-wise comparison. Returns (failures, margin).

    failures: list of (kind, path, detail). margin: max(observed / allowed) over the checks that passed or failed.
    """
    top = res is None
    if res is None:
        res = []
        stat = {"margin": 0.0, "leaves": 0, "probes": 0, "skipped_probes": 0}
    if len(impl) != len(ref):
        res.append(("COUNT", path, {"impl": len(impl), "ref": len(ref)}))
        return (res, stat["margin"]) if top else None
    for i, (a, b) in enumerate(zip(impl, ref)):
        pth = "%s%d" % (path, i)
        if isinstance(a, Group) != isinstance(b, Group):
            res.append(("KIND", pth, {"impl": type(a).__name__, "ref": type(b).__name__}))
            continue
        if isinstance(a, Group):
            d = abs(a.alpha - b.alpha)
            stat["margin"] = max(stat["margin"], d / budget.alpha_tol * 0.5)
            if d > budget.alpha_tol:
                res.append(("GALPHA", pth, {"impl": a.alpha, "ref": b.alpha}))
            compare(a.children, b.children, budget, pth + "/", res, stat)
            continue
        stat["leaves"] += 1
        tau = budget.tau(a.norm, b)
        h = hausdorff(a.contours, b.contours, good=tau * 0.05)
        stat["margin"] = max(stat["margin"], min(h / tau, 50.0))
        if h > tau:
            res.append(("OUTLINE", pth, {"dist": round(h, 3), "tau": round(tau, 3), "impl_bbox": bbox(a.contours), "ref_bbox": bbox(b.contours), "tag": a.tag}))
            continue
        # winding membership away from both boundaries
        bb = bbox(a.contours + b.contours)
        if bb:
            x0, y0, x1, y1 = bb
            px, py = (x1 - x0) * 0.05 + 2 * tau, (y1 - y0) * 0.05 + 2 * tau
            wbad = None
            for ix in range(6):
                for iy in range(6):
                    p = (x0 - px + (x1 - x0 + 2 * px) * (ix + 0.37) / 6, y0 - py + (y1 - y0 + 2 * py) * (iy + 0.61) / 6)
                    wa, wb = winding(a.contours, p) != 0, winding(b.contours, p) != 0
                    if wa != wb and dist_to_contours(a.contours, p) > 2 * tau and dist_to_contours(b.contours, p) > 2 * tau:
                        wbad = (p, wa, wb)
                        break
                if wbad:
                    break
            if wbad:
                res.append(("WINDING", pth, {"point": wbad[0], "impl_inside": wbad[1], "ref_inside": wbad[2]}))
                continue
        pa, pb = a.paint, b.paint
        if isinstance(pb, Solid):
            if not isinstance(pa, Solid):
                res.append(("PAINTKIND", pth, {"impl": repr(pa), "ref": repr(pb)}))
                continue
            if pa.rgb != pb.rgb:
                res.append(("SOLID", pth, {"impl": repr(pa), "ref": repr(pb)}))
            elif abs(pa.alpha - pb.alpha) > budget.alpha_tol:
                res.append(("ALPHA", pth, {"impl": repr(pa), "ref": repr(pb)}))
            elif pb.pidx is not None and pa.pidx is not None and pa.pidx != pb.pidx:
                res.append(("PALETTEINDEX", pth, {"impl": repr(pa), "ref": repr(pb)}))
            continue
        if not isinstance(pa, Grad):
            res.append(("PAINTKIND", pth, {"impl": repr(pa), "ref": repr(pb)}))
            continue
        delta = budget.delta(a.norm)
        worst = 0.0
        worst_info = None
        for p in _probes(b.contours):
            ti = pa.t(p)
            if ti is None:
                stat["skipped_probes"] += 1
                continue
            ci = pa.color_at_t(ti)
            rng = color_range(pb, p, delta, budget.eps_t, pa, ti)
            if rng is None or ci is None:
                stat["skipped_probes"] += 1
                continue
            stat["probes"] += 1
            for k in range(4):
                eps = budget.eps_c if k < 3 else budget.eps_a
                lo, hi = rng[k]
                exc = max(lo - ci[k], ci[k] - hi, 0.0) / eps
                if exc > worst:
                    worst = exc
                    worst_info = {"point": (round(p[0], 2), round(p[1], 2)), "channel": k, "impl": ci, "ref_range": rng, "t_impl": ti, "t_ref": pb.t(p)}
        stat["margin"] = max(stat["margin"], min(worst, 50.0))
        if worst > 1.0:
            worst_info.update({"impl_paint": repr(pa), "ref_paint": repr(pb), "excess": round(worst, 2)})
            res.append(("GRADIENT", pth, worst_info))
    if top:
        return res, stat["margin"]


# ------------------------------------------------------------------------------------- compositing (self-test)
def paint_color(paint, p):
    if isinstance(paint, Solid):
        return paint.rgb + (paint.alpha,)
    t = paint.t(p)
    if t is None:
        return None
    return paint.color_at_t(t)


def composite(nodes, p, fg=(0.0, 0.0, 0.0)):
    """Source-over composite of the tree at point p -> premultiplied (r,g,b,a) with rgb in 0..255 scale."""
    acc = [0.0, 0.0, 0.0, 0.0]
    for n in nodes:
        if isinstance(n, Group):
            c = composite(n.children, p, fg)
            src = [v * n.alpha for v in c]
        else:
            if winding(n.contours, p) == 0:
                continue
            col = paint_color(n.paint, p)
            if col is None:
                continue
            rgb = fg if tuple(col[:3]) == FG else col[:3]
            a = col[3]
            src = [rgb[0] * a, rgb[1] * a, rgb[2] * a, a]
        ia = 1 - src[3]
        acc = [src[i] + acc[i] * ia for i in range(4)]
    return acc
