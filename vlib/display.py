"""Display trees: the meaning of a colour glyph, independent of any container format.

Node  = Group(alpha, children) | Leaf(contours, paint)
Paint = Solid(rgb | FG, alpha, pidx) | Grad(kind, geom, stops, extend, M, domain)

Grad.domain says how the extend mode unwraps the colour line:
  "svg"  - SVG semantics: the ramp lives on [0,1]; before the first / after the last stop it is flat;
           repeat/reflect tile the [0,1] interval.
  "colr" - COLR semantics: repeat/reflect tile the interval [first stop offset, last stop offset].
"""
import math

from .geom import (
    I,
    aapply,
    ainv,
    amul,
    anorm,
    bbox,
    dist_to_contours,
    exact_bounds,
    flatten_segments,
    hausdorff,
    winding,
)

FG = (-1000.0, -1000.0, -1000.0)  # sentinel "foreground colour"; compares equal only with itself


class Solid:
    __slots__ = ("rgb", "alpha", "pidx")

    def __init__(self, rgb, alpha, pidx=None):
        self.rgb = tuple(rgb)
        self.alpha = alpha
        self.pidx = pidx

    def __repr__(self):
        return "Solid(%s,%.4f,%s)" % ("FG" if self.rgb == FG else "#%02x%02x%02x" % tuple(int(v) for v in self.rgb), self.alpha, self.pidx)


class Grad:
    __slots__ = ("kind", "geom", "stops", "extend", "M", "domain", "_inv", "gt")

    def __init__(self, kind, geom, stops, extend, M=I, domain="svg", gt=None):
        self.kind = kind  # "L": geom=(p0,p1,p2)   "R": geom=(c0,r0,c1,r1)
        self.geom = geom
        self.stops = list(stops)  # [(offset, rgb, alpha)]
        self.extend = extend  # pad | repeat | reflect
        self.M = M  # gradient space -> tree space
        self.domain = domain
        self._inv = None
        self.gt = gt  # the gradientTransform as written in SVG text (its entries are rounded decimals), or None

    def with_M(self, M):
        return Grad(self.kind, self.geom, self.stops, self.extend, M, self.domain, self.gt)

    def __repr__(self):
        return "Grad(%s,%s,%s,%s,M=%s,%s)" % (self.kind, self.geom, self.stops, self.extend, tuple(round(v, 4) for v in self.M), self.domain)

    def extent(self):
        """Size of the gradient geometry in its own space (for rounding-error scaling)."""
        if self.kind == "L":
            p0, p1, _ = self.geom
            return math.hypot(p1[0] - p0[0], p1[1] - p0[1])
        c0, r0, c1, r1 = self.geom
        return abs(r1 - r0) + math.hypot(c1[0] - c0[0], c1[1] - c0[1])

    def t(self, p):
        if self._inv is None:
            self._inv = ainv(self.M)
        q = aapply(self._inv, p)
        if self.kind == "L":
            p0, p1, p2 = self.geom
            # COLR: p3 = projection of p1 onto the line through p0 perpendicular to (p2 - p0)
            nx, ny = p2[0] - p0[0], p2[1] - p0[1]
            px, py = -ny, nx
            d = (p1[0] - p0[0]) * px + (p1[1] - p0[1]) * py
            pl = px * px + py * py
            if pl == 0 or d == 0:
                return None
            vx, vy = px * d / pl, py * d / pl
            L = vx * vx + vy * vy
            return ((q[0] - p0[0]) * vx + (q[1] - p0[1]) * vy) / L
        c0, r0, c1, r1 = self.geom
        cdx, cdy = c1[0] - c0[0], c1[1] - c0[1]
        dr = r1 - r0
        pdx, pdy = q[0] - c0[0], q[1] - c0[1]
        a = cdx * cdx + cdy * cdy - dr * dr
        b = pdx * cdx + pdy * cdy + r0 * dr
        c = pdx * pdx + pdy * pdy - r0 * r0
        if abs(a) < 1e-12:
            if b == 0:
                return None
            t = c / (2 * b)
            return t if r0 + t * dr >= 0 else None
        disc = b * b - a * c
        if disc < 0:
            return None
        s = math.sqrt(disc)
        for t in sorted(((b + s) / a, (b - s) / a), reverse=True):
            if r0 + t * dr >= 0:
                return t
        return None

    # -- colour line
    def _dom(self):
        if self.domain == "colr":
            return self.stops[0][0], self.stops[-1][0]
        return 0.0, 1.0

    def _wrap(self, u):
        if self.extend == "pad":
            return max(0.0, min(1.0, u))
        if self.extend == "repeat":
            return u - math.floor(u)
        m = u % 2.0
        return m if m <= 1 else 2 - m

    def color_at_t(self, t):
        d0, d1 = self._dom()
        if d1 <= d0:
            s = self.stops[-1]
            return s[1] + (s[2],)
        u = (t - d0) / (d1 - d0)
        if self.extend == "pad":
            # beyond the ends the line shows the outermost stop of a stack of hard stops, not the first one at that offset
            if u >= 1.0 and t >= self.stops[-1][0]:
                s = self.stops[-1]
                return s[1] + (s[2],)
            if u <= 0.0 and t <= self.stops[0][0]:
                s = self.stops[0]
                return s[1] + (s[2],)
        x = d0 + self._wrap(u) * (d1 - d0)
        return self._ramp(x)[0]

    def _ramp(self, x):
        """Colour(s) at ramp position x (stop-offset units), flat outside the stops; several at a hard stop."""
        st = self.stops
        if x < st[0][0]:
            return [st[0][1] + (st[0][2],)]
        if x > st[-1][0]:
            return [st[-1][1] + (st[-1][2],)]
        out = []
        for (o0, c0, a0), (o1, c1, a1) in zip(st, st[1:]):
            if o0 <= x <= o1:
                if o1 == o0:
                    out.append(c0 + (a0,))
                    out.append(c1 + (a1,))
                else:
                    k = (x - o0) / (o1 - o0)
                    out.append(tuple(c0[i] + (c1[i] - c0[i]) * k for i in range(3)) + (a0 + (a1 - a0) * k,))
        return out or [st[-1][1] + (st[-1][2],)]

    def color_range_t(self, lo, hi):
        """Exact per-channel range [(min,max)]*4 of the colour line over t in [lo, hi]: the line is piecewise linear,
        so its extremes are at the interval ends, at stops inside the interval (placed exactly, no float wrapping)
        and at the tiling seams."""
        d0, d1 = self._dom()
        st = self.stops
        if d1 <= d0:
            cols = [s[1] + (s[2],) for s in st]
            return [(min(c[i] for c in cols), max(c[i] for c in cols)) for i in range(4)]
        w = d1 - d0
        ulo, uhi = (lo - d0) / w, (hi - d0) / w
        E = 1e-9
        cols = []
        for u in (ulo, uhi):
            cols += self._ramp(d0 + self._wrap(u) * w)
        first, last = st[0][1] + (st[0][2],), st[-1][1] + (st[-1][2],)
        for off, rgb, al in st:
            f = (off - d0) / w
            f = max(0.0, min(1.0, f))
            col = rgb + (al,)
            if self.extend == "pad":
                inside = ulo - E <= f <= uhi + E
            elif self.extend == "repeat":
                inside = math.ceil(ulo - f - E) <= math.floor(uhi - f + E)
            else:
                inside = (math.ceil((ulo - f - E) / 2.0) <= math.floor((uhi - f + E) / 2.0)) or (
                    math.ceil((ulo + f - E) / 2.0) <= math.floor((uhi + f + E) / 2.0)
                )
            if inside:
                cols.append(col)
        # seams: in repeat mode both ends of the ramp meet at every integer u
        if self.extend == "repeat" and math.ceil(ulo - E) <= math.floor(uhi + E):
            cols += [first, last]
        return [(min(c[i] for c in cols), max(c[i] for c in cols)) for i in range(4)]


class Leaf:
    """An outline (exact segments, tree space) filled with a paint. Flattening happens lazily in tree space."""

    __slots__ = ("segs", "paint", "norm", "tag", "qerr", "_contours", "_bounds")

    def __init__(self, segs, paint, norm=1.0, tag=None, qerr=0.0):
        self.segs = segs  # contours of ("L"|"Q"|"C", points…) segments
        self.paint = paint
        self.norm = norm  # operator norm of the linear part of the chain that placed the outline
        self.tag = tag  # provenance (glyph name / element id) for messages and reuse accounting
        self.qerr = qerr  # displacement allowed by the decimal rounding of the transform chain that placed it (SVG text)
        self._contours = None
        self._bounds = None

    @property
    def contours(self):
        if self._contours is None:
            self._contours = flatten_segments(self.segs)
        return self._contours

    @property
    def bounds(self):
        if self._bounds is None:
            self._bounds = exact_bounds(self.segs)
        return self._bounds

    def replace_paint(self, paint):
        lf = Leaf(self.segs, paint, self.norm, self.tag, self.qerr)
        lf._contours, lf._bounds = self._contours, self._bounds
        return lf


def map_segs(segs, m):
    return [[(s[0],) + tuple(aapply(m, p) for p in s[1:]) for s in c] for c in segs]


class Group:
    __slots__ = ("alpha", "children")

    def __init__(self, alpha, children):
        self.alpha = alpha
        self.children = children


def leaves(nodes):
    for n in nodes:
        if isinstance(n, Group):
            yield from leaves(n.children)
        else:
            yield n


def splice(nodes):
    """Groups with alpha 1 have no meaning of their own; empty groups paint nothing."""
    out = []
    for n in nodes:
        if isinstance(n, Group):
            kids = splice(n.children)
            if not kids:
                continue
            if n.alpha == 1:
                out.extend(kids)
            else:
                out.append(Group(n.alpha, kids))
        else:
            out.append(n)
    return out


def map_paint(p, m):
    if isinstance(p, Grad):
        return p.with_M(amul(m, p.M))
    return p


def map_tree(nodes, m):
    out = []
    for n in nodes:
        if isinstance(n, Group):
            out.append(Group(n.alpha, map_tree(n.children, m)))
        else:
            out.append(Leaf(map_segs(n.segs, m), map_paint(n.paint, m), n.norm, n.tag, n.qerr * anorm(m)))
    return out


def describe(nodes, depth=0):
    out = []
    for n in nodes:
        if isinstance(n, Group):
            out.append("  " * depth + "Group(%.4f)" % n.alpha)
            out += describe(n.children, depth + 1)
        else:
            bb = bbox(n.contours)
            out.append("  " * depth + "Leaf bbox=%s paint=%r norm=%.3f tag=%s" % (tuple(round(v, 2) for v in bb) if bb else None, n.paint, n.norm, n.tag))
    return out


# ------------------------------------------------------------------------------------- comparison
class Budget:
    """Tolerances derived from the encodings (DESIGN §3.2)."""

    def __init__(self, target, upem=1024, reuse_tolerance=0.0, font_scale=1.0, cff=False, extra_tau=0.0, symmetric=False):
        self.target = target  # "colr" | "otsvg" | "exact"
        self.upem = upem
        # the tolerance is enforced per coordinate (|dx| <= t and |dy| <= t): sqrt(2) * t as a distance
        # picosvg applies it to path *parameters* (for an arc: end point and radii separately, whose deviations add up)
        self.reuse = max(0.0, reuse_tolerance) * 1.4143 * 2.0
        # The flag documents the tolerance in source units, the code applies it to font-unit paths: allow the larger.
        self.scale = max(1.0, font_scale)
        self.cff = cff
        self.extra_tau = extra_tau
        self.symmetric = symmetric  # both trees come from compiled fonts: both carry field rounding

    def tau(self, norm, leaf=None, impl=None):
        L = max(1.0, norm)
        big = max(1.0, self.upem / 4096.0)
        if self.target == "colr":
            cu2qu = 0.0 if self.cff else 0.001 * self.upem
            return (0.71 + cu2qu) * L + self.reuse * self.scale + 1.0 * big + self.extra_tau
        if self.target == "otsvg":
            q = impl.qerr if impl is not None else 0.0
            return 1.5 * q + self.reuse * self.scale + 0.5 + self.extra_tau
        return 1e-6 + self.extra_tau

    def delta(self, norm):
        L = max(1.0, norm)
        if self.target == "colr":
            return 0.71 * L * 3 + 1.0 * max(1.0, self.upem / 4096.0)
        if self.target == "otsvg":
            return 0.5 + 0.002 * self.upem
        return 1e-6

    def delta_for(self, impl):
        """Paint-position allowance for a leaf: the outline allowance of the same leaf (same rounded transforms)."""
        if self.target == "otsvg":
            return 1.5 * impl.qerr + 0.5
        return self.delta(impl.norm)

    def eps_t(self, impl_grad, t, p=None):
        """Bound on the change of the gradient parameter caused by rounding the gradient's own geometry fields
        (integers in COLR, 3 decimals in SVG) – first-order propagation, evaluated in the gradient's own space."""
        unit = {"colr": 1.0, "otsvg": 0.002}.get(self.target)
        if unit is None:
            return 1e-9
        g = impl_grad
        if g.kind == "L":
            p0, p1, p2 = g.geom
            l1 = math.hypot(p1[0] - p0[0], p1[1] - p0[1])
            l2 = max(math.hypot(p2[0] - p0[0], p2[1] - p0[1]), 1e-9)
            cross = abs((p1[0] - p0[0]) * (p2[1] - p0[1]) - (p1[1] - p0[1]) * (p2[0] - p0[0]))
            ext = max(cross / l2, 1e-9)  # length of the effective gradient vector P3 - P0
            if ext < 3.0 * unit:
                # the first-order analysis below presumes the rounding (0.71 units per point) to be small against the vector it
                # perturbs; a colour line shorter than three units of the field's resolution (here: a tiny gradient expressed in
                # the space of a 7x smaller reused outline) may point anywhere after rounding - only its colours are comparable
                return 1e9
            dv = 1.42 + 1.42 * l1 / l2  # rounding of p0/p1, plus p2's rounding turning the projection axis
            D = 0.0
            if p is not None:
                q = aapply(g._inv or ainv(g.M), p)
                D = math.hypot(q[0] - p0[0], q[1] - p0[1])
            pe = self._gt_pos_err(g, abs(p0[0]) + abs(p0[1]) + D)
            return 2 ** -13 + (unit * (0.71 + dv * (D / ext + abs(t))) + pe) / ext
        c0, r0, c1, r1 = g.geom
        ext = max((r1 - r0) - math.hypot(c1[0] - c0[0], c1[1] - c0[1]), 1e-9)
        if ext < 3.0 * unit:
            return 1e9
        return 2 ** -13 + (unit * (1.5 + 2.5 * abs(t)) + self._gt_pos_err(g, abs(c1[0]) + abs(c1[1]) + r1 * (1 + abs(t)))) / ext

    def _gt_pos_err(self, g, reach):
        """Position error, in gradient space, caused by the 3-decimal rounding of a written gradientTransform whose
        input coordinates have L1 size `reach` (a zero-translation matrix applied far from the origin is the bad case)."""
        if self.target != "otsvg" or g.gt is None:
            return 0.0
        n = anorm(g.gt)
        det = abs(g.gt[0] * g.gt[3] - g.gt[1] * g.gt[2])
        smin = det / n if n else 0.0
        if smin <= 0:
            return float("inf")
        return 0.0005 * 1.42 * (reach + 1.0) / smin

    alpha_override = None
    ignore_fg_alpha = False  # COLRv0 cannot give the foreground colour an alpha

    @property
    def alpha_tol(self):
        if self.alpha_override is not None:
            return self.alpha_override
        return self._alpha_tol()

    def _alpha_tol(self):
        # COLR: F2Dot14 alpha (times one multiplication); SVG text: 3-decimal opacity or 8-bit hex alpha (truncated)
        return 2 ** -13 * 1.5 if self.target == "colr" else (0.0045 if self.target == "otsvg" else 1e-9)

    eps_c = 2.0  # /255 for rgb
    eps_a = 2.0 / 255


def _probes(contours, n=7):
    bb = bbox(contours)
    if bb is None:
        return []
    x0, y0, x1, y1 = bb
    out = []
    for ix in range(n):
        for iy in range(n):
            # deterministic jitter so probes do not sit on a symmetric lattice
            jx = ((ix * 7 + iy * 3) % 5 - 2) * 0.06
            jy = ((ix * 5 + iy * 11) % 7 - 3) * 0.04
            p = (x0 + (x1 - x0) * (ix + 0.5 + jx) / n, y0 + (y1 - y0) * (iy + 0.5 + jy) / n)
            if winding(contours, p) != 0:
                out.append(p)
    return out


def color_range(ref_grad, p, delta, eps_t_fn, impl_grad, t_impl, symmetric=False):
    """Range of colours the reference paint takes around p, widened by what field rounding allows."""
    pts = [p]
    for k in range(16):
        pts.append((p[0] + delta * math.cos(2 * math.pi * k / 16), p[1] + delta * math.sin(2 * math.pi * k / 16)))
    for k in range(8):
        pts.append((p[0] + 0.5 * delta * math.cos(2 * math.pi * (k + 0.5) / 8), p[1] + 0.5 * delta * math.sin(2 * math.pi * (k + 0.5) / 8)))
    if ref_grad.kind == "R":
        # the parameter of a radial gradient is a cone: its minimum over the disc is at the focus when that lies inside
        f = aapply(ref_grad.M, ref_grad.geom[0])
        if math.hypot(f[0] - p[0], f[1] - p[1]) <= delta:
            pts.append(f)
    ts = [ref_grad.t(q) for q in pts]
    if any(t is None for t in ts):
        return None
    lo, hi = min(ts), max(ts)
    w = (hi - lo) * 0.1 + eps_t_fn(impl_grad, t_impl, p)
    if symmetric and ts[0] is not None:
        w += eps_t_fn(ref_grad, ts[0], p)
    return ref_grad.color_range_t(lo - w, hi + w)


def compare(impl, ref, budget, path="/", res=None, stat=None):
    """Structural, layer-wise comparison. Returns (failures, margin).

    failures: list of (kind, path, detail). margin: max(observed / allowed) over the checks that passed or failed.
    """
    top = res is None
    if res is None:
        res = []
        stat = {"margin": 0.0, "leaves": 0, "probes": 0, "skipped_probes": 0}
    if len(impl) != len(ref):
        res.append(("COUNT", path, {"impl": len(impl), "ref": len(ref)}))
        return (res, stat["margin"]) if top else None
    for i, (a, b) in enumerate(zip(impl, ref)):
        pth = "%s%d" % (path, i)
        if isinstance(a, Group) != isinstance(b, Group):
            res.append(("KIND", pth, {"impl": type(a).__name__, "ref": type(b).__name__}))
            continue
        if isinstance(a, Group):
            d = abs(a.alpha - b.alpha)
            stat["margin"] = max(stat["margin"], d / budget.alpha_tol * 0.5)
            if d > budget.alpha_tol:
                res.append(("GALPHA", pth, {"impl": a.alpha, "ref": b.alpha}))
            compare(a.children, b.children, budget, pth + "/", res, stat)
            continue
        stat["leaves"] += 1
        tau = budget.tau(a.norm, b, a)
        if not a.contours or not b.contours:
            # an outline that collapsed under quantisation: fine if its counterpart is itself below the tolerance
            bb = bbox(a.contours or b.contours)
            if bb is None or max(bb[2] - bb[0], bb[3] - bb[1]) <= 2 * tau:
                continue
            res.append(("OUTLINE", pth, {"dist": "one side has no outline", "tau": round(tau, 3), "impl_bbox": bbox(a.contours), "ref_bbox": bbox(b.contours), "tag": a.tag}))
            continue
        h = hausdorff(a.contours, b.contours, good=tau * 0.05)
        stat["margin"] = max(stat["margin"], min(h / tau, 50.0))
        if h > tau:
            res.append(("OUTLINE", pth, {"dist": round(h, 3), "tau": round(tau, 3), "impl_bbox": bbox(a.contours), "ref_bbox": bbox(b.contours), "tag": a.tag}))
            continue
        # winding membership away from both boundaries
        bb = bbox(a.contours + b.contours)
        if bb:
            x0, y0, x1, y1 = bb
            px, py = (x1 - x0) * 0.05 + 2 * tau, (y1 - y0) * 0.05 + 2 * tau
            wbad = None
            for ix in range(6):
                for iy in range(6):
                    p = (x0 - px + (x1 - x0 + 2 * px) * (ix + 0.37) / 6, y0 - py + (y1 - y0 + 2 * py) * (iy + 0.61) / 6)
                    wa, wb = winding(a.contours, p) != 0, winding(b.contours, p) != 0
                    if wa != wb and dist_to_contours(a.contours, p) > 2 * tau and dist_to_contours(b.contours, p) > 2 * tau:
                        wbad = (p, wa, wb)
                        break
                if wbad:
                    break
            if wbad:
                res.append(("WINDING", pth, {"point": wbad[0], "impl_inside": wbad[1], "ref_inside": wbad[2]}))
                continue
        pa, pb = a.paint, b.paint
        if isinstance(pb, Solid):
            if not isinstance(pa, Solid):
                res.append(("PAINTKIND", pth, {"impl": repr(pa), "ref": repr(pb)}))
                continue
            if pa.rgb != pb.rgb:
                res.append(("SOLID", pth, {"impl": repr(pa), "ref": repr(pb)}))
            elif abs(pa.alpha - pb.alpha) > budget.alpha_tol and not (budget.ignore_fg_alpha and pb.rgb == FG):
                res.append(("ALPHA", pth, {"impl": repr(pa), "ref": repr(pb)}))
            elif pb.pidx is not None and pa.pidx is not None and pa.pidx != pb.pidx:
                res.append(("PALETTEINDEX", pth, {"impl": repr(pa), "ref": repr(pb)}))
            continue
        if not isinstance(pa, Grad):
            res.append(("PAINTKIND", pth, {"impl": repr(pa), "ref": repr(pb)}))
            continue
        if abs(pa.M[0] * pa.M[3] - pa.M[1] * pa.M[2]) < 1e-300:
            # a non-invertible gradient matrix: renderers drop the paint
            res.append(("GRADIENT-SINGULAR", pth, {"impl": repr(pa), "ref": repr(pb)}))
            continue
        if abs(pb.M[0] * pb.M[3] - pb.M[1] * pb.M[2]) < 1e-300:
            continue
        delta = budget.delta_for(a)
        if budget.target == "otsvg" and pb.domain == "colr" and any(abs(x - y) > 1e-12 for x, y in zip(pb.M[:4], (1.0, 0.0, 0.0, 1.0))):
            # COLR -> SVG: a gradient under transform paints has to be written with 3-decimal numbers, as a gradientTransform or
            # baked into the coordinates with the matrix rounded first; either way a matrix entry off by 0.0005 moves a point
            # with coordinates (x, y) by 0.0005 * (|x| + |y|) per row (A4's argument, for a transform that is not in the text)
            if pb.kind == "L":
                pts_ = list(pb.geom)
            else:
                pts_ = [pb.geom[0], pb.geom[2], (pb.geom[2][0] + pb.geom[3], pb.geom[2][1] + pb.geom[3])]
            reach = max(abs(q[0]) + abs(q[1]) for q in pts_)
            delta += 0.0005 * 1.42 * (reach + 1.0) * 1.5
        worst = 0.0
        worst_info = None
        for p in _probes(b.contours):
            ti = pa.t(p)
            if ti is None:
                stat["skipped_probes"] += 1
                continue
            ci = pa.color_at_t(ti)
            rng = color_range(pb, p, delta, budget.eps_t, pa, ti, budget.symmetric)
            if rng is None or ci is None:
                stat["skipped_probes"] += 1
                continue
            stat["probes"] += 1
            for k in range(4):
                eps = budget.eps_c if k < 3 else budget.eps_a
                lo, hi = rng[k]
                exc = max(lo - ci[k], ci[k] - hi, 0.0) / eps
                if exc > worst:
                    worst = exc
                    worst_info = {"point": (round(p[0], 2), round(p[1], 2)), "channel": k, "impl": ci, "ref_range": rng, "t_impl": ti, "t_ref": pb.t(p)}
        stat["margin"] = max(stat["margin"], min(worst, 50.0))
        if worst > 1.0:
            worst_info.update({"impl_paint": repr(pa), "ref_paint": repr(pb), "excess": round(worst, 2)})
            res.append(("GRADIENT", pth, worst_info))
    if top:
        return res, stat["margin"]


# ------------------------------------------------------------------------------------- compositing (self-test)
def paint_color(paint, p):
    if isinstance(paint, Solid):
        return paint.rgb + (paint.alpha,)
    t = paint.t(p)
    if t is None:
        return None
    return paint.color_at_t(t)


def composite(nodes, p, fg=(0.0, 0.0, 0.0)):
    """Source-over composite of the tree at point p -> premultiplied (r,g,b,a) with rgb in 0..255 scale."""
    acc = [0.0, 0.0, 0.0, 0.0]
    for n in nodes:
        if isinstance(n, Group):
            c = composite(n.children, p, fg)
            src = [v * n.alpha for v in c]
        else:
            if winding(n.contours, p) == 0:
                continue
            col = paint_color(n.paint, p)
            if col is None:
                continue
            rgb = fg if tuple(col[:3]) == FG else col[:3]
            a = col[3]
            src = [rgb[0] * a, rgb[1] * a, rgb[2] * a, a]
        ia = 1 - src[3]
        acc = [src[i] + acc[i] * ia for i in range(4)]
    return acc
