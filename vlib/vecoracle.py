"""Shared oracle plumbing for the vector formats (C01, C02, C03, C05, C06, C19 …)."""
import math
import zlib

from . import build
from .display import Budget, Grad, Group, Leaf, Solid, compare, leaves, map_tree
from .gen_svg import model_has, model_paths, render
from .geom import I, amul, anorm, bbox
from .ref_colr import BadCOLR, ColrReader, UnsupportedPaint
from .ref_svg import BadSVG, SVGDoc, UnsupportedSVG, em_transform
from .shaper import shape

Y_FLIP = (1.0, 0.0, 0.0, -1.0, 0.0, 0.0)


def source_text(src):
    if "svg" in src:
        return src["svg"]
    return render(src["model"])


def to_build_sources(case):
    # "name": a glyph name given by a custom glyph map (optional)
    return [dict({"svg": source_text(s), "cps": s["cps"]}, **({"name": s["name"]} if s.get("name") else {})) for s in case["sources"]]


def advance_ok(cfg, vb, adv):
    """advance = max(width, round(em height * w / h)); either rounding at exact ties is accepted."""
    x = (cfg["ascender"] - cfg["descender"]) * vb[2] / vb[3]
    cands = {int(math.floor(x + 0.5)), int(round(x))}
    return any(adv == max(cfg["width"], c) for c in cands)


class Ref:
    """Reference picture of one source in font space."""

    def __init__(self, text, cfg, advance=None):
        self.doc = SVGDoc(text)
        self.vb = self.doc.view_box
        user = tuple(cfg.get("transform") or I)
        self.m, self.advance = em_transform(self.vb, cfg["ascender"], cfg["descender"], cfg["width"], user, advance)
        self.scale = (cfg["ascender"] - cfg["descender"]) / self.vb[3]
        self.src_tree = self.doc.tree()
        self.tree = map_tree(self.src_tree, self.m)
        self.user_norm = anorm(user)

    def max_coord(self):
        mx = 0.0
        for lf in leaves(self.tree):
            bb = bbox(lf.contours)
            if bb:
                mx = max(mx, max(abs(v) for v in bb))
            if isinstance(lf.paint, Grad):
                g = lf.paint
                pts = list(g.geom[:3]) if g.kind == "L" else [g.geom[0], g.geom[2]]
                from .geom import aapply

                for p in pts:
                    q = aapply(g.M, p)
                    mx = max(mx, abs(q[0]), abs(q[1]))
                if g.kind == "R":
                    mx = max(mx, g.geom[3] * anorm(g.M))
        return mx


def svg_doc_for_gid(font, gid):
    """The unique SVG document whose range covers gid -> (text, start, end) or None; raises BadSVG on overlap."""
    hits = []
    for doc, a, b in font["SVG "].docList:
        if a <= gid <= b:
            hits.append((doc, a, b))
    if len(hits) > 1:
        raise BadSVG("overlapping-documents", "gid %d covered by %d documents" % (gid, len(hits)))
    if not hits:
        return None
    doc, a, b = hits[0]
    if isinstance(doc, bytes):
        if doc[:3] == b"\x1f\x8b\x08":
            import gzip

            doc = gzip.decompress(doc)
        doc = doc.decode("utf-8")
    return doc, a, b


def impl_tree(font, gname, reader=None, doc_cache=None):
    """-> (tree in font space, kind) for whichever colour table the font has (COLR preferred)."""
    if "COLR" in font:
        rd = reader or ColrReader(font)
        return rd.tree(gname), "colr"
    if "SVG " in font:
        gid = font.getGlyphID(gname)
        hit = svg_doc_for_gid(font, gid)
        if hit is None:
            return [], "otsvg"
        text = hit[0]
        d = None
        if doc_cache is not None:
            d = doc_cache.get(text)
        if d is None:
            d = SVGDoc(text)
            if doc_cache is not None:
                doc_cache[text] = d
        t = map_tree(d.glyph_tree(gid), Y_FLIP)
        for lf in leaves(t):
            lf.tag = "doc%d:%s" % (hit[1], lf.tag)  # ids / element paths are only unique within one document
        return t, "otsvg"
    return None, None


def reach(font, cps):
    """Glyph name reached by shaping cps, or (None, reason)."""
    g = shape(font, cps)
    if g is None:
        return None, "unmapped-codepoint"
    if len(g) != 1:
        return None, "shapes-to-%d-glyphs" % len(g)
    return g[0], None


def reuse_stats(trees):
    """How many leaves draw an outline that another leaf also draws (COLR: same glyph; OT-SVG: <use> target)."""
    tags = {}
    transformed = 0
    n = 0
    for t in trees:
        for lf in leaves(t):
            n += 1
            tags[lf.tag] = tags.get(lf.tag, 0) + 1
            if abs(lf.norm - 1.0) > 1e-6:
                transformed += 1
    shared = sum(c for c in tags.values() if c > 1)
    return {"leaves": n, "shared": shared, "transformed": transformed, "distinct": len(tags)}


def case_classes(case, v):
    cfg = case["cfg"]
    v.cls("fmt:" + cfg["color_format"])
    t = cfg.get("transform") or [1, 0, 0, 1, 0, 0]
    if list(t) != [1, 0, 0, 1, 0, 0]:
        v.cls("user-transform")
    if cfg.get("width") == 0:
        v.cls("width0")
    v.cls("upem:" + ("small" if cfg["upem"] < 256 else "big" if cfg["upem"] > 4096 else "mid"))
    for s in case["sources"]:
        m = s.get("model")
        if not m:
            continue
        vb = m["vb"]
        if vb[0] or vb[1]:
            v.cls("vb-origin")
        if abs(vb[2] / vb[3] - 1) > 1e-9:
            v.cls("vb-nonsquare")
        if model_has(m, "group"):
            v.cls("group")
            if any(n["t"] == "g" and any(k["t"] == "g" for k in n["kids"]) for n in m["nodes"]):
                v.cls("group-nested")
        for p in model_paths(m):
            f = p["fill"]
            if f["k"] == "solid":
                if "currentColor" in f["c"]:
                    v.cls("paint:currentColor")
                elif f["c"].startswith("var("):
                    v.cls("paint:palette-var")
                else:
                    v.cls("paint:solid")
            else:
                v.cls("paint:" + f["k"], "units:" + f["units"], "spread:" + f["spread"])
                if f.get("gt"):
                    v.cls("gradientTransform")
                if f["k"] == "rad" and (f["fx"], f["fy"]) != (f["cx"], f["cy"]):
                    v.cls("focal")
                if f["k"] == "rad" and f.get("fr"):
                    v.cls("focal-radius")
                if f["stops"][0][0] > 0 or f["stops"][-1][0] < 1:
                    v.cls("stops-inner")
            if p["op"] != 1.0:
                v.cls("shape-opacity")
            tag = p.get("tag", "")
            if tag.startswith("lib"):
                v.cls("place:" + tag.split(":")[1])


def is_nontrivial_vector(case):
    cfg = case["cfg"]
    if list(cfg.get("transform") or [1, 0, 0, 1, 0, 0]) != [1, 0, 0, 1, 0, 0]:
        return True
    for s in case["sources"]:
        m = s.get("model")
        if not m:
            continue
        vb = m["vb"]
        if vb[0] or vb[1] or vb[2] != vb[3]:
            return True
        if model_has(m, "gradient") or model_has(m, "group"):
            return True
    return False


def extend_domain_class(ref_paint):
    """True when a gradient's repeat/reflect tiling interval differs between SVG ([0,1]) and COLR ([first,last] stop)."""
    return (
        isinstance(ref_paint, Grad)
        and ref_paint.extend != "pad"
        and (ref_paint.stops[0][0] > 1e-9 or ref_paint.stops[-1][0] < 1 - 1e-9)
    )


def relax_extend_domain(nodes, domain):
    out = []
    for n in nodes:
        if isinstance(n, Group):
            out.append(Group(n.alpha, relax_extend_domain(n.children, domain)))
        elif isinstance(n.paint, Grad) and extend_domain_class(n.paint):
            g = n.paint
            out.append(n.replace_paint(Grad(g.kind, g.geom, g.stops, g.extend, g.M, domain)))
        else:
            out.append(n)
    return out


def prune_tiny(nodes, budget):
    """Drop leaves whose outline is no larger than the outline tolerance (and groups left empty)."""
    out = []
    for n in nodes:
        if isinstance(n, Group):
            kids = prune_tiny(n.children, budget)
            if len(kids) == 1 and not isinstance(kids[0], Group):
                out.append(Group(n.alpha, kids))
            elif kids:
                out.append(Group(n.alpha, kids))
        else:
            bb = bbox(n.contours) if n.contours else None
            tau = budget.tau(n.norm, n, n)
            if bb is None or max(bb[2] - bb[0], bb[3] - bb[1]) <= 2 * tau:
                continue
            out.append(n)
    return out


INVISIBLE_ALPHA = 0.5 / 255  # below half a step of an 8-bit channel nothing reaches the picture (A43)


def _invisible(leaf):
    p = leaf.paint
    if isinstance(p, Grad):
        return all(a <= INVISIBLE_ALPHA for _, _, a in p.stops)
    return getattr(p, "alpha", 1.0) <= INVISIBLE_ALPHA


def prune_invisible(nodes):
    """Drop leaves painted with full transparency (and groups left empty, or with alpha 0): they do not contribute to the picture,
    so a converter is free to leave them out (a COLRv0 layer whose palette entry has alpha 0, for instance)."""
    out = []
    for n in nodes:
        if isinstance(n, Group):
            if n.alpha <= INVISIBLE_ALPHA:
                continue
            kids = prune_invisible(n.children)
            if kids:
                out.append(Group(n.alpha, kids))
        elif not _invisible(n):
            out.append(n)
    return out


def compare_trees(impl, ref, budget, relax_to=None):
    """compare() plus classification of the known extend-domain discrepancy.

    Returns (failures, margin). A GRADIENT failure that disappears when the reference tiles its colour line the
    way the *other* format defines it is reported with kind EXTEND-DOMAIN instead (same root cause)."""
    res, margin = compare(impl, ref, budget)
    if any(k in ("COUNT", "KIND") for k, _, _ in res):
        # fully transparent layers may be left out by either side
        a, b = prune_invisible(impl), prune_invisible(ref)
        res2, margin2 = compare(a, b, budget)
        if len(res2) < len(res) and not any(k in ("COUNT", "KIND") for k, _, _ in res2):
            impl, ref, res, margin = a, b, res2, margin2
    if any(k in ("COUNT", "KIND") for k, _, _ in res):
        # shapes smaller than the outline quantisation may legitimately collapse to nothing: retry without them
        a, b = prune_tiny(impl, budget), prune_tiny(ref, budget)
        res2, margin2 = compare(a, b, budget)
        if len(res2) < len(res) and not any(k in ("COUNT", "KIND") for k, _, _ in res2):
            impl, ref, res, margin = a, b, res2, margin2
    if relax_to and any(k == "GRADIENT" for k, _, _ in res):
        res2, margin2 = compare(impl, relax_extend_domain(ref, relax_to), budget)
        if not any(k == "GRADIENT" for k, _, _ in res2):
            res = [(("EXTEND-DOMAIN" if k == "GRADIENT" else k), p, d) for k, p, d in res]
            margin = margin2
    return res, margin
