"""Reference interpreter: COLR (v0 / v1) + CPAL + outlines -> display tree in font units (y up).

Written from the OpenType COLR specification; fontTools is used only as the binary decompiler
(attribute access on decompiled otTables), not for semantics.
"""
import math

from fontTools.pens.recordingPen import DecomposingRecordingPen

from .display import FG, Grad, Group, Leaf, Solid, splice
from .geom import I, amul, anorm, exact_bounds, flatten_segments, segments


class UnsupportedPaint(Exception):
    pass


class BadCOLR(Exception):
    def __init__(self, kind, msg):
        super().__init__(msg)
        self.kind = kind


EXTEND = {0: "pad", 1: "repeat", 2: "reflect"}

# paint formats (COLR v1 spec)
COLRLAYERS, SOLID, VARSOLID, LINEAR, VARLINEAR, RADIAL, VARRADIAL, SWEEP, VARSWEEP, GLYPH, COLRGLYPH = range(1, 12)
TRANSFORM, VARTRANSFORM, TRANSLATE, VARTRANSLATE, SCALE, VARSCALE, SCALEC, VARSCALEC = range(12, 20)
SCALEU, VARSCALEU, SCALEUC, VARSCALEUC, ROTATE, VARROTATE, ROTATEC, VARROTATEC = range(20, 28)
SKEW, VARSKEW, SKEWC, VARSKEWC, COMPOSITE = range(28, 33)


def _around(m, cx, cy):
    return amul((1, 0, 0, 1, cx, cy), amul(m, (1, 0, 0, 1, -cx, -cy)))


def paint_matrix(fmt, g):
    """Affine of a transform paint (formats 12-31) per the COLR specification. g(name) reads a field."""
    base = fmt - (fmt - TRANSFORM) % 2  # fold Var* onto the static format
    if base == TRANSFORM:
        t = g("Transform")
        return (t["xx"], t["yx"], t["xy"], t["yy"], t["dx"], t["dy"])
    if base == TRANSLATE:
        return (1.0, 0.0, 0.0, 1.0, g("dx"), g("dy"))
    if base == SCALE:
        return (g("scaleX"), 0.0, 0.0, g("scaleY"), 0.0, 0.0)
    if base == SCALEC:
        return _around((g("scaleX"), 0.0, 0.0, g("scaleY"), 0.0, 0.0), g("centerX"), g("centerY"))
    if base == SCALEU:
        return (g("scale"), 0.0, 0.0, g("scale"), 0.0, 0.0)
    if base == SCALEUC:
        return _around((g("scale"), 0.0, 0.0, g("scale"), 0.0, 0.0), g("centerX"), g("centerY"))
    if base in (ROTATE, ROTATEC):
        a = math.radians(g("angle"))  # fontTools exposes degrees (Angle converter: value * 180)
        m = (math.cos(a), math.sin(a), -math.sin(a), math.cos(a), 0.0, 0.0)
        return m if base == ROTATE else _around(m, g("centerX"), g("centerY"))
    if base in (SKEW, SKEWC):
        # spec: x' = x - tan(xSkew) * y ;  y' = y + tan(ySkew) * x   (angles counter-clockwise)
        m = (1.0, math.tan(math.radians(g("ySkewAngle"))), -math.tan(math.radians(g("xSkewAngle"))), 1.0, 0.0, 0.0)
        return m if base == SKEW else _around(m, g("centerX"), g("centerY"))
    raise UnsupportedPaint("format %d is not a transform" % fmt)


def normalized_location(font, location):
    """User-space location -> normalised, avar-mapped, F2DOT14-rounded coordinates."""
    from fontTools.varLib.models import normalizeLocation, piecewiseLinearMap

    axes = {a.axisTag: (a.minValue, a.defaultValue, a.maxValue) for a in font["fvar"].axes}
    loc = normalizeLocation(location, axes)
    loc = {k: round(v * 16384) / 16384 for k, v in loc.items()}
    if "avar" in font:
        for tag, seg in font["avar"].segments.items():
            if tag in loc:
                loc[tag] = round(piecewiseLinearMap(loc[tag], seg) * 16384) / 16384
    return loc


class ColrReader:
    def __init__(self, font, location=None, palette=0):
        self.font = font
        # Normalised coordinates are F2DOT14 in every consumer (OpenType "Coordinate scales and normalization"): without
        # the rounding a master whose position is not representable sits a hair off its region's peak.
        self.nloc = normalized_location(font, location) if location else None
        self.gs = font.getGlyphSet(location=self.nloc, normalized=True) if location else font.getGlyphSet()
        self.colr = font["COLR"]
        self.pal = font["CPAL"].palettes[palette] if "CPAL" in font else []
        self.location = location
        self._var = None
        if self.colr.version == 1:
            t = self.colr.table
            self.base = {}
            if t.BaseGlyphList is not None:
                for r in t.BaseGlyphList.BaseGlyphPaintRecord:
                    self.base[r.BaseGlyph] = r.Paint
            self.layers = t.LayerList.Paint if t.LayerList is not None else []
            self.clips = {}
            if getattr(t, "ClipList", None) is not None and t.ClipList is not None:
                self.clips = dict(t.ClipList.clips)
            self.v0 = {}
            if getattr(t, "BaseGlyphRecordArray", None) is not None and t.BaseGlyphRecordArray is not None:
                lr = t.LayerRecordArray.LayerRecord
                for r in t.BaseGlyphRecordArray.BaseGlyphRecord:
                    self.v0[r.BaseGlyph] = [(l.LayerGlyph, l.PaletteIndex) for l in lr[r.FirstLayerIndex : r.FirstLayerIndex + r.NumLayers]]
            if location and getattr(t, "VarStore", None) is not None and t.VarStore is not None:
                from fontTools.varLib.varStore import VarStoreInstancer

                self._var = (VarStoreInstancer(t.VarStore, font["fvar"].axes, self.nloc), t.VarIndexMap)
        else:
            self.v0 = {g: [(l.name, l.colorID) for l in ls] for g, ls in self.colr.ColorLayers.items()}
            self.base = {}
            self.layers = []
            self.clips = {}

    # -- variable field access
    def _getter(self, p):
        """Field reader honouring variations at self.location (per-field scaling per the spec)."""
        deltas = {}
        if self._var is not None and p.Format in _VAR_FORMATS and getattr(p, "VarIndexBase", 0xFFFFFFFF) != 0xFFFFFFFF:
            inst, vmap = self._var
            attrs = _var_attrs(p)
            for i, (name, unit) in enumerate(attrs):
                idx = p.VarIndexBase + i
                if vmap is not None:
                    idx = vmap.mapping[idx] if idx < len(vmap.mapping) else vmap.mapping[-1]
                deltas[name] = inst[idx] * unit
        def g(name):
            if name == "Transform":
                t = p.Transform
                return {k: getattr(t, k) + deltas.get(k, 0.0) for k in ("xx", "yx", "xy", "yy", "dx", "dy")}
            return getattr(p, name) + deltas.get(name, 0.0)
        return g

    def color(self, idx, alpha):
        if idx == 0xFFFF:
            return Solid(FG, alpha, 0xFFFF)
        if idx >= len(self.pal):
            raise BadCOLR("palette-index-range", "palette index %d out of range %d" % (idx, len(self.pal)))
        c = self.pal[idx]
        return Solid((float(c.red), float(c.green), float(c.blue)), alpha * c.alpha / 255.0, idx)

    def _stops(self, line, var):
        stops = []
        for s in line.ColorStop:
            off, al = s.StopOffset, s.Alpha
            if var and self._var is not None and getattr(s, "VarIndexBase", 0xFFFFFFFF) != 0xFFFFFFFF:
                inst, vmap = self._var
                d = []
                for i in range(2):
                    idx = s.VarIndexBase + i
                    if vmap is not None:
                        idx = vmap.mapping[idx] if idx < len(vmap.mapping) else vmap.mapping[-1]
                    d.append(inst[idx] / 16384.0)
                off, al = off + d[0], al + d[1]
            c = self.color(s.PaletteIndex, al)
            stops.append((off, c.rgb, c.alpha))
        stops.sort(key=lambda s: s[0])
        return stops, EXTEND[int(line.Extend)]

    def fill(self, p, M, depth=0):
        f = p.Format
        if depth > 64:
            raise BadCOLR("paint-depth", "paint graph too deep")
        g = self._getter(p)
        if f in (SOLID, VARSOLID):
            return self.color(p.PaletteIndex, g("Alpha"))
        if f in (LINEAR, VARLINEAR):
            stops, ext = self._stops(p.ColorLine, f == VARLINEAR)
            return Grad("L", ((g("x0"), g("y0")), (g("x1"), g("y1")), (g("x2"), g("y2"))), stops, ext, M, "colr")
        if f in (RADIAL, VARRADIAL):
            stops, ext = self._stops(p.ColorLine, f == VARRADIAL)
            return Grad("R", ((g("x0"), g("y0")), g("r0"), (g("x1"), g("y1")), g("r1")), stops, ext, M, "colr")
        if TRANSFORM <= f <= VARSKEWC:
            return self.fill(p.Paint, amul(M, paint_matrix(f, g)), depth + 1)
        raise UnsupportedPaint("fill paint format %d" % f)

    def outline(self, gname, M):
        rp = DecomposingRecordingPen(self.gs)
        if gname not in self.gs:
            raise BadCOLR("glyph-missing", "glyph %s not in font" % gname)
        self.gs[gname].draw(rp)
        return segments(rp.value, M)

    def walk(self, p, M, seen=()):
        f = p.Format
        if len(seen) > 64:
            raise BadCOLR("paint-depth", "paint graph too deep")
        g = self._getter(p)
        if f == COLRLAYERS:
            out = []
            if p.FirstLayerIndex + p.NumLayers > len(self.layers):
                raise BadCOLR("layer-range", "layer slice out of range")
            for ch in self.layers[p.FirstLayerIndex : p.FirstLayerIndex + p.NumLayers]:
                out.extend(self.walk(ch, M, seen + (id(p),)))
            return [Group(1.0, out)]
        if f == GLYPH:
            segs = self.outline(p.Glyph, M)
            paint = self.fill(p.Paint, M)
            return [Leaf(segs, paint, anorm(M), p.Glyph)]
        if TRANSFORM <= f <= VARSKEWC:
            return self.walk(p.Paint, amul(M, paint_matrix(f, g)), seen + (id(p),))
        if f == COMPOSITE:
            if int(p.CompositeMode) != 5:  # SRC_IN
                raise UnsupportedPaint("composite mode %d" % int(p.CompositeMode))
            b = p.BackdropPaint
            if b.Format not in (SOLID, VARSOLID):
                raise UnsupportedPaint("composite backdrop format %d" % b.Format)
            a = self.color(b.PaletteIndex, self._getter(b)("Alpha")).alpha
            return [Group(a, self.walk(p.SourcePaint, M, seen + (id(p),)))]
        if f == COLRGLYPH:
            if p.Glyph in seen:
                raise BadCOLR("colrglyph-cycle", "PaintColrGlyph cycle through %s" % p.Glyph)
            if p.Glyph not in self.base:
                raise BadCOLR("colrglyph-missing", "PaintColrGlyph %s has no base record" % p.Glyph)
            return self.walk(self.base[p.Glyph], M, seen + (p.Glyph,))
        raise UnsupportedPaint("paint format %d" % f)

    def tree(self, gname):
        if gname in self.base:
            return splice(self.walk(self.base[gname], I))
        if gname in self.v0:
            out = []
            for lname, pidx in self.v0[gname]:
                segs = self.outline(lname, I)
                out.append(Leaf(segs, self.color(pidx, 1.0), 1.0, lname))
            return out
        return []

    def has_record(self, gname):
        return gname in self.base or gname in self.v0

    def clipbox(self, gname):
        c = self.clips.get(gname)
        if c is None:
            return None
        vals = [c.xMin, c.yMin, c.xMax, c.yMax]
        if getattr(c, "Format", 1) == 2 and self._var is not None and getattr(c, "VarIndexBase", 0xFFFFFFFF) != 0xFFFFFFFF:
            inst, vmap = self._var
            for i in range(4):
                idx = c.VarIndexBase + i
                if vmap is not None:
                    idx = vmap.mapping[idx] if idx < len(vmap.mapping) else vmap.mapping[-1]
                vals[i] += inst[idx]
        return tuple(vals)


_VAR_FORMATS = {VARSOLID, VARLINEAR, VARRADIAL, VARSWEEP, VARTRANSFORM, VARTRANSLATE, VARSCALE, VARSCALEC, VARSCALEU, VARSCALEUC, VARROTATE, VARROTATEC, VARSKEW, VARSKEWC}

_F2 = 1.0 / 16384
_FX = 1.0 / 65536
_ANG = 180.0 / 16384


def _var_attrs(p):
    f = p.Format
    if f == VARSOLID:
        return [("Alpha", _F2)]
    if f == VARLINEAR:
        return [(n, 1.0) for n in ("x0", "y0", "x1", "y1", "x2", "y2")]
    if f == VARRADIAL:
        return [(n, 1.0) for n in ("x0", "y0", "r0", "x1", "y1", "r1")]
    if f == VARTRANSFORM:
        return [(n, _FX) for n in ("xx", "yx", "xy", "yy", "dx", "dy")]
    if f == VARTRANSLATE:
        return [("dx", 1.0), ("dy", 1.0)]
    if f == VARSCALE:
        return [("scaleX", _F2), ("scaleY", _F2)]
    if f == VARSCALEC:
        return [("scaleX", _F2), ("scaleY", _F2), ("centerX", 1.0), ("centerY", 1.0)]
    if f == VARSCALEU:
        return [("scale", _F2)]
    if f == VARSCALEUC:
        return [("scale", _F2), ("centerX", 1.0), ("centerY", 1.0)]
    if f == VARROTATE:
        return [("angle", _ANG)]
    if f == VARROTATEC:
        return [("angle", _ANG), ("centerX", 1.0), ("centerY", 1.0)]
    if f == VARSKEW:
        return [("xSkewAngle", _ANG), ("ySkewAngle", _ANG)]
    if f == VARSKEWC:
        return [("xSkewAngle", _ANG), ("ySkewAngle", _ANG), ("centerX", 1.0), ("centerY", 1.0)]
    raise UnsupportedPaint("variable format %d" % f)


def self_test():
    """Cross-check the spec matrices against fontTools' Paint.getTransform (once per run)."""
    from fontTools.ttLib.tables import otTables as ot

    cases = [
        (TRANSLATE, {"dx": 12.0, "dy": -7.0}),
        (SCALE, {"scaleX": 1.5, "scaleY": -0.5}),
        (SCALEC, {"scaleX": 1.5, "scaleY": 0.75, "centerX": 100.0, "centerY": -40.0}),
        (SCALEU, {"scale": 0.3}),
        (SCALEUC, {"scale": 1.3, "centerX": 10.0, "centerY": 20.0}),
        (ROTATE, {"angle": 33.0}),
        (ROTATEC, {"angle": -120.0, "centerX": 50.0, "centerY": 60.0}),
        (SKEW, {"xSkewAngle": 20.0, "ySkewAngle": -10.0}),
        (SKEWC, {"xSkewAngle": -15.0, "ySkewAngle": 25.0, "centerX": 5.0, "centerY": 9.0}),
    ]
    for fmt, fields in cases:
        p = ot.Paint()
        p.Format = fmt
        for k, v in fields.items():
            setattr(p, k, v)
        ours = paint_matrix(fmt, lambda n: fields[n])
        theirs = tuple(p.getTransform())
        if any(abs(a - b) > 1e-9 for a, b in zip(ours, theirs)):
            raise AssertionError("paint_matrix disagrees with fontTools for format %d: %s vs %s" % (fmt, ours, theirs))
    return True
