"""Reference shaper: best Unicode cmap, then every GSUB lookup referenced by feature 'ccmp'
(LookupList order), ligature substitution (type 4), single and multiple substitution (types 1, 2 -
a one-component "ligature" rule compiles to type 1) and type 7 extension wrappers, applied per the
OpenType algorithm with lookup flag 0: at each position the first sub-table that applies is used;
the LigatureSet of the current glyph is tried in stored order, first match wins."""


class ShapeError(Exception):
    pass


def shape(font, cps):
    """-> list of glyph names, or None if some codepoint is unmapped."""
    cmap = font.getBestCmap()
    gl = [cmap.get(c) for c in cps]
    if None in gl:
        return None
    gsub = font.get("GSUB")
    if gsub is None or gsub.table.FeatureList is None:
        return gl
    t = gsub.table
    idxs = sorted({i for fr in t.FeatureList.FeatureRecord if fr.FeatureTag == "ccmp" for i in fr.Feature.LookupListIndex})
    for li in idxs:
        lk = t.LookupList.Lookup[li]
        i = 0
        while i < len(gl):
            for st in lk.SubTable:
                if st.LookupType == 7:
                    st = st.ExtSubTable
                if st.LookupType == 1:
                    if gl[i] in st.mapping:
                        gl[i] = st.mapping[gl[i]]
                        break
                    continue
                if st.LookupType == 2:
                    if gl[i] in st.mapping:
                        out = list(st.mapping[gl[i]])
                        gl[i : i + 1] = out
                        i += len(out) - 1
                        break
                    continue
                if st.LookupType != 4:
                    raise ShapeError("ccmp lookup of type %d" % st.LookupType)
                ligs = st.ligatures.get(gl[i])
                if not ligs:
                    continue
                hit = False
                for lig in ligs:
                    comp = lig.Component
                    if gl[i + 1 : i + 1 + len(comp)] == comp:
                        gl[i : i + 1 + len(comp)] = [lig.LigGlyph]
                        hit = True
                        break
                if hit:
                    break
            i += 1
    return gl
