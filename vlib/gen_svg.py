"""Hypothesis strategies for SVG sources in picosvg normal form (direct emitter) – DESIGN §2.1/2.2.

A *source model* is JSON-able:
  {"vb": [x,y,w,h], "nodes": [node…]}
  node  = {"t":"p", "d": [[cmd, x,y,…]…], "fill": paint, "op": float}
        | {"t":"g", "op": float, "kids": [node…]}
  paint = {"k":"solid","c": str}
        | {"k":"lin","units":"obb"|"user","x1","y1","x2","y2","gt":[6]|None,"spread":str,"stops":[[off,color,opacity]…]}
        | {"k":"rad","units",…,"cx","cy","r","fx","fy","fr","gt","spread","stops"}
render(model) gives the SVG text that is handed to nanoemoji *and* to the reference interpreter.
"""
import math

from hypothesis import strategies as st

from .geom import I, aapply, achain, amul, rotate, scale, skew, translate

COMMON_NAMES = ["red", "blue", "lime", "orange", "rebeccapurple", "teal", "gold", "black", "white", "salmon", "navy"]
try:  # every CSS colour keyword (148), from PIL's table -- the same independent table the reference interpreter reads
    from PIL import ImageColor as _IC

    CSS_NAMES = sorted(_IC.colormap)
except Exception:  # pragma: no cover
    CSS_NAMES = list(COMMON_NAMES)


def fnum(v, nd=6):
    s = ("%." + str(nd) + "f") % v
    if "." in s:
        s = s.rstrip("0").rstrip(".")
    if s == "-0":
        s = "0"
    return s


# ------------------------------------------------------------------------------ colours
@st.composite
def rgb_hex(draw, allow_alpha=True):
    r, g, b = draw(st.integers(0, 255)), draw(st.integers(0, 255)), draw(st.integers(0, 255))
    form = draw(st.sampled_from(["rrggbb", "rrggbb", "rgb", "rrggbbaa", "name", "func"] if allow_alpha else ["rrggbb", "rgb", "name", "func"]))
    if form == "rgb":
        return "#%x%x%x" % (r >> 4, g >> 4, b >> 4)
    if form == "rrggbbaa":
        return "#%02x%02x%02x%02x" % (r, g, b, draw(st.integers(1, 255)))
    if form == "name":
        return draw(st.sampled_from(CSS_NAMES))
    if form == "func":
        return "rgb(%d, %d, %d)" % (r, g, b) if draw(st.booleans()) else "rgb(%d %d %d)" % (r, g, b)
    return "#%02x%02x%02x" % (r, g, b)


@st.composite
def font_palette(draw):
    """Per-font table: palette-variable index -> its (consistent) default colour string."""
    n = draw(st.integers(0, 4))
    idxs = draw(st.lists(st.integers(0, 7), min_size=n, max_size=n, unique=True))
    out = {}
    for i in idxs:
        r, g, b = draw(st.integers(0, 255)), draw(st.integers(0, 255)), draw(st.integers(0, 255))
        out[str(i)] = "#%02x%02x%02x" % (r, g, b)
    return out


@st.composite
def color_str(draw, palette, allow_current=True, allow_alpha=True):
    kinds = ["plain"] * 6
    if allow_current:
        kinds.append("current")
    if palette:
        kinds += ["var", "var"]
    k = draw(st.sampled_from(kinds))
    if k == "current":
        return "currentColor"
    if k == "var":
        i = draw(st.sampled_from(sorted(palette)))
        return "var(--color%s, %s)" % (i, palette[i])
    return draw(rgb_hex(allow_alpha))


opacity_st = st.one_of(st.just(1.0), st.just(1.0), st.floats(0.05, 0.95).map(lambda v: round(v, 3)))


# ------------------------------------------------------------------------------ gradients
@st.composite
def grad_transform(draw, size):
    k = draw(st.sampled_from(["none", "none", "none", "translate", "scale", "rotate", "skew", "matrix", "reflect"]))
    if k == "none":
        return None
    if k == "translate":
        return list(translate(draw(st.floats(-0.3, 0.3)) * size, draw(st.floats(-0.3, 0.3)) * size))
    if k == "scale":
        return list(scale(draw(st.floats(0.4, 2.0)), draw(st.floats(0.4, 2.0))))
    if k == "rotate":
        return [round(v, 6) for v in rotate(draw(st.floats(-180, 180)), 0.5 * size, 0.5 * size)]
    if k == "skew":
        return [round(v, 6) for v in skew(draw(st.floats(-40, 40)), draw(st.floats(-40, 40)))]
    if k == "reflect":
        return [round(v, 6) for v in achain(translate(-0.5 * size, -0.5 * size), (-1.0, 0, 0, 1.0, 0, 0) if draw(st.booleans()) else (1.0, 0, 0, -1.0, 0, 0), translate(0.5 * size, 0.5 * size))]
    a, d = draw(st.floats(0.5, 1.6)), draw(st.floats(0.5, 1.6))
    b, c = draw(st.floats(-0.45, 0.45)), draw(st.floats(-0.45, 0.45))
    return [round(a, 4), round(b, 4), round(c, 4), round(d, 4), round(draw(st.floats(-0.2, 0.2)) * size, 4), round(draw(st.floats(-0.2, 0.2)) * size, 4)]


@st.composite
def stops_st(draw, palette):
    n = draw(st.integers(2, 5))
    offs = sorted(draw(st.lists(st.floats(0, 1).map(lambda v: round(v, 3)), min_size=n, max_size=n)))
    ends = draw(st.sampled_from(["full"] * 7 + ["inner", "first0", "last1"]))
    if ends in ("full", "first0"):
        offs[0] = 0.0
    if ends in ("full", "last1"):
        offs[-1] = 1.0
    if ends == "inner":
        offs = sorted(min(0.95, max(0.05, o)) for o in offs)
    if offs[-1] - offs[0] < 0.05:
        offs[0], offs[-1] = 0.0, 1.0
    out = []
    for o in offs:
        out.append([o, draw(color_str(palette, allow_current=False)), draw(opacity_st)])
    fade = draw(st.sampled_from(["no"] * 5 + ["in", "out"]))
    if fade == "in":
        out[0][2] = 0.0  # a gradient that fades in from nothing (halo, glow): its first colour is fully transparent
    elif fade == "out":
        out[-1][2] = 0.0
    return out


@st.composite
def gradient_paint(draw, palette, bbox):
    """bbox = (x0,y0,x1,y1) of the shape in user space."""
    x0, y0, x1, y1 = bbox
    w, h = max(x1 - x0, 1e-6), max(y1 - y0, 1e-6)
    units = draw(st.sampled_from(["obb", "user"]))
    kind = draw(st.sampled_from(["lin", "rad"]))
    spread = draw(st.sampled_from(["pad", "pad", "reflect", "repeat"]))
    stops = draw(stops_st(palette))
    if units == "obb":
        ox, oy, sx, sy, size = 0.0, 0.0, 1.0, 1.0, 1.0
    else:
        ox, oy, sx, sy, size = x0, y0, w, h, max(w, h)
    nd = 4 if units == "obb" else 3
    if kind == "lin":
        ang = draw(st.floats(0, 2 * math.pi))
        ln = draw(st.floats(0.25, 1.1))
        cx, cy = draw(st.floats(0.2, 0.8)), draw(st.floats(0.2, 0.8))
        dx, dy = math.cos(ang) * ln / 2, math.sin(ang) * ln / 2
        p = {"k": "lin", "units": units, "spread": spread, "stops": stops,
             "x1": round(ox + (cx - dx) * sx, nd), "y1": round(oy + (cy - dy) * sy, nd),
             "x2": round(ox + (cx + dx) * sx, nd), "y2": round(oy + (cy + dy) * sy, nd)}
    else:
        cx, cy = draw(st.floats(0.25, 0.75)), draw(st.floats(0.25, 0.75))
        r = draw(st.floats(0.2, 0.8))
        rho = draw(st.sampled_from([0.0, 0.0, 1.0])) * draw(st.floats(0.05, 0.7))
        th = draw(st.floats(0, 2 * math.pi))
        fr = 0.0
        if draw(st.integers(0, 5)) == 0:
            fr = draw(st.floats(0.02, 0.25)) * r * (1 - rho)
        s = min(sx, sy) if units == "user" else 1.0
        p = {"k": "rad", "units": units, "spread": spread, "stops": stops,
             "cx": round(ox + cx * sx, nd), "cy": round(oy + cy * sy, nd), "r": round(r * s, nd),
             "fx": round(ox + cx * sx + math.cos(th) * rho * r * s, nd), "fy": round(oy + cy * sy + math.sin(th) * rho * r * s, nd), "fr": round(fr * s, nd)}
    gt = draw(grad_transform(size))
    p["gt"] = gt
    return p


@st.composite
def paint_st(draw, palette, bbox, solid_only=False, p_grad=0.4):
    if solid_only or draw(st.floats(0, 1)) > p_grad:
        return {"k": "solid", "c": draw(color_str(palette))}
    return draw(gradient_paint(palette, bbox))


# ------------------------------------------------------------------------------ geometry (unit shapes around the origin, radius ~1)
@st.composite
def unit_shape(draw, kinds=("polygon", "cubic", "quad", "ellipse", "ring", "rect", "arc")):
    kind = draw(st.sampled_from(list(kinds)))
    if kind == "rect":
        w, h = draw(st.floats(0.3, 1.0)), draw(st.floats(0.3, 1.0))
        return [["M", -w, -h], ["L", w, -h], ["L", w, h], ["L", -w, h], ["Z"]]
    if kind == "ellipse":
        rx, ry = draw(st.floats(0.3, 1.0)), draw(st.floats(0.3, 1.0))
        k = 0.5522847498
        return [["M", rx, 0], ["C", rx, ry * k, rx * k, ry, 0, ry], ["C", -rx * k, ry, -rx, ry * k, -rx, 0],
                ["C", -rx, -ry * k, -rx * k, -ry, 0, -ry], ["C", rx * k, -ry, rx, -ry * k, rx, 0], ["Z"]]
    if kind == "arc":
        rx, ry = draw(st.floats(0.3, 1.0)), draw(st.floats(0.3, 1.0))
        # half ellipse closed by a chord
        return [["M", -rx, 0], ["A", rx, ry, 0, 0, 1, rx, 0], ["Z"]]
    n = draw(st.integers(3, 9))
    radii = [draw(st.floats(0.45, 1.0)) for _ in range(n)]
    ph = draw(st.floats(0, 2 * math.pi))
    pts = [(radii[i] * math.cos(ph + 2 * math.pi * i / n), radii[i] * math.sin(ph + 2 * math.pi * i / n)) for i in range(n)]
    if kind == "polygon":
        return [["M", pts[0][0], pts[0][1]]] + [["L", p[0], p[1]] for p in pts[1:]] + [["Z"]]
    if kind == "ring":
        f = draw(st.floats(0.3, 0.6))
        inner = [(p[0] * f, p[1] * f) for p in reversed(pts)]
        return ([["M", pts[0][0], pts[0][1]]] + [["L", p[0], p[1]] for p in pts[1:]] + [["Z"]]
                + [["M", inner[0][0], inner[0][1]]] + [["L", p[0], p[1]] for p in inner[1:]] + [["Z"]])
    mids = [((pts[i][0] + pts[(i + 1) % n][0]) / 2, (pts[i][1] + pts[(i + 1) % n][1]) / 2) for i in range(n)]
    cmds = [["M", mids[-1][0], mids[-1][1]]]
    for i in range(n):
        if kind == "quad":
            cmds.append(["Q", pts[i][0], pts[i][1], mids[i][0], mids[i][1]])
        else:
            a = mids[i - 1]
            b = mids[i]
            c = pts[i]
            cmds.append(["C", a[0] + (c[0] - a[0]) * 0.66, a[1] + (c[1] - a[1]) * 0.66, b[0] + (c[0] - b[0]) * 0.66, b[1] + (c[1] - b[1]) * 0.66, b[0], b[1]])
    cmds.append(["Z"])
    return cmds


def transform_cmds(cmds, m):
    """Map path commands by an affine (arcs only under similarity-free cases are converted by caller)."""
    out = []
    for c in cmds:
        op = c[0]
        if op == "Z":
            out.append(["Z"])
        elif op == "A":
            rx, ry, rot, large, sweep, x, y = c[1:]
            # only used with axis scale + translate (no rotation/shear): radii scale, flags flip with reflections
            sx, sy = m[0], m[3]
            assert abs(m[1]) < 1e-12 and abs(m[2]) < 1e-12
            p = aapply(m, (x, y))
            sw = sweep if sx * sy > 0 else 1 - sweep
            out.append(["A", abs(rx * sx), abs(ry * sy), rot, large, sw, p[0], p[1]])
        else:
            pts = []
            for i in range(1, len(c), 2):
                p = aapply(m, (c[i], c[i + 1]))
                pts += [p[0], p[1]]
            out.append([op] + pts)
    return out


def has_arc(cmds):
    return any(c[0] == "A" for c in cmds)


def cmds_to_d(cmds, nd=6):
    parts = []
    for c in cmds:
        if c[0] == "Z":
            parts.append("Z")
        elif c[0] == "A":
            parts.append("A%s,%s %s %d %d %s,%s" % (fnum(c[1], nd), fnum(c[2], nd), fnum(c[3], nd), c[4], c[5], fnum(c[6], nd), fnum(c[7], nd)))
        else:
            parts.append(c[0] + " ".join("%s,%s" % (fnum(c[i], nd), fnum(c[i + 1], nd)) for i in range(1, len(c), 2)))
    return " ".join(parts)


def cmds_bbox(cmds):
    xs, ys = [], []
    for c in cmds:
        if c[0] == "Z":
            continue
        if c[0] == "A":
            xs += [c[6] - 2 * c[1], c[6] + 2 * c[1], c[6]]
            ys += [c[7] - 2 * c[2], c[7] + 2 * c[2], c[7]]
            continue
        for i in range(1, len(c), 2):
            xs.append(c[i])
            ys.append(c[i + 1])
    return (min(xs), min(ys), max(xs), max(ys))


# placement transform classes for library shapes (DESIGN §2.2)
PLACE_CLASSES = ["identity", "translate", "translate_far", "rotate", "reflect", "uscale", "nuscale", "big", "shear", "near_miss"]


@st.composite
def placement(draw, vb, klass=None, size=None):
    """Affine taking a unit shape into the viewBox; returns (class, affine)."""
    x, y, w, h = vb
    k = klass or draw(st.sampled_from(PLACE_CLASSES))
    s0 = size if size is not None else draw(st.floats(0.05, 0.35)) * min(w, h)
    cx = x + draw(st.floats(-0.2, 1.2) if k == "translate_far" else st.floats(0.1, 0.9)) * w
    cy = y + draw(st.floats(-0.2, 1.2) if k == "translate_far" else st.floats(0.1, 0.9)) * h
    base = scale(s0)
    if k in ("identity", "translate", "translate_far", "near_miss"):
        lin = I
    elif k == "rotate":
        lin = rotate(draw(st.floats(-180, 180)))
    elif k == "reflect":
        lin = amul(rotate(draw(st.floats(-180, 180))), (-1.0, 0, 0, 1.0, 0, 0))
    elif k == "uscale":
        f = draw(st.sampled_from([0.5, 2.0, 3.0, 0.25]))
        lin = scale(f)
    elif k == "nuscale":
        lin = amul(rotate(draw(st.floats(-180, 180))), scale(draw(st.floats(0.5, 2.0)), draw(st.floats(0.5, 2.0))))
    elif k == "big":
        lin = scale(draw(st.floats(2.0, 20.0)))
    else:
        lin = amul((1.0, 0, draw(st.floats(-0.8, 0.8)), 1.0, 0, 0), rotate(draw(st.floats(-180, 180))))
    return k, achain(base, lin, translate(cx, cy))


@st.composite
def view_box(draw, square_bias=True):
    h = draw(st.one_of(st.sampled_from([24.0, 36.0, 100.0, 128.0, 1000.0, 1024.0]), st.floats(24, 2048).map(lambda v: round(v, 2))))
    aspect = draw(st.one_of(st.just(1.0), st.just(1.0), st.floats(0.25, 4.0).map(lambda v: round(v, 3)))) if square_bias else draw(st.floats(0.25, 4.0).map(lambda v: round(v, 3)))
    w = round(h * aspect, 2)
    if draw(st.booleans()):
        x = y = 0.0
    else:
        x = round(draw(st.floats(-500, 500)), 1)
        y = round(draw(st.floats(-500, 500)), 1)
    return [x, y, w, h]


@st.composite
def source_model(draw, palette, library=None, vb=None, max_shapes=6, solid_only=False, allow_groups=True, p_grad=0.4, place_classes=None, lib_prob=0.6, paint_lib=None):
    vb = vb or draw(view_box())
    n = draw(st.integers(1, max_shapes))
    nodes = []
    for i in range(n):
        if library and draw(st.floats(0, 1)) < lib_prob:
            li = draw(st.integers(0, len(library) - 1))
            unit = library[li]["cmds"]
            classes = place_classes or PLACE_CLASSES
            if has_arc(unit):
                classes = [c for c in classes if c in ("identity", "translate", "translate_far", "uscale", "big", "near_miss")] or ["translate"]
            k, m = draw(placement(vb, draw(st.sampled_from(classes)), size=library[li]["size"] * min(vb[2], vb[3])))
            cmds = transform_cmds(unit, m)
            if k == "near_miss":
                # perturb one coordinate by a multiple of the default reuse tolerance (0.1 source units)
                f = draw(st.sampled_from([0.5, 1.0, 2.0])) * 0.1
                j = draw(st.integers(0, len(cmds) - 2))
                if cmds[j][0] != "Z" and cmds[j][0] != "A":
                    cmds[j][1] += f
            tag = "lib%d:%s" % (li, k)
        else:
            unit = draw(unit_shape())
            k, m = draw(placement(vb, "translate" if has_arc(unit) else draw(st.sampled_from(["translate", "rotate", "nuscale", "translate_far"]))))
            cmds = transform_cmds(unit, m)
            tag = "fresh"
        if cmds[-1] == ["Z"] and not has_arc(cmds) and draw(st.sampled_from([False] * 7 + [True])):
            cmds = cmds[:-1]  # last sub-path left open: filled as if closed (SVG), and a legal normal form
            tag += "+open"
        earlier = [x["fill"] for x in nodes if x["fill"]["k"] != "solid"]
        if paint_lib and not solid_only and draw(st.sampled_from([False] * 5 + [True])):
            fill = paint_lib[draw(st.integers(0, len(paint_lib) - 1))]  # the very same gradient in several glyphs
        elif earlier and draw(st.sampled_from([False] * 3 + [True])):
            # one gradient element referenced by several shapes of the glyph (objectBoundingBox units then mean a different
            # geometry for every shape that uses it)
            fill = dict(earlier[draw(st.integers(0, len(earlier) - 1))])
        else:
            fill = draw(paint_st(palette, cmds_bbox(cmds), solid_only, p_grad))
        nodes.append({"t": "p", "d": cmds, "fill": fill, "op": draw(opacity_st), "tag": tag})
    if allow_groups and len(nodes) >= 2 and draw(st.integers(0, 3)) == 0:
        # wrap a run of >= 2 consecutive nodes into an opacity group (possibly nested once more)
        a = draw(st.integers(0, len(nodes) - 2))
        b = draw(st.integers(a + 2, len(nodes)))
        grp = {"t": "g", "op": round(draw(st.floats(0.1, 0.9)), 3), "kids": nodes[a:b]}
        if len(grp["kids"]) >= 3 and draw(st.booleans()):
            inner = {"t": "g", "op": round(draw(st.floats(0.1, 0.9)), 3), "kids": grp["kids"][:2]}
            grp["kids"] = [inner] + grp["kids"][2:]
        nodes = nodes[:a] + [grp] + nodes[b:]
    model = {"vb": vb, "nodes": nodes}
    if draw(st.sampled_from([False] * 4 + [True])):
        model["dup_defs"] = True  # every shape gets its own copy of the gradient element
    return model


@st.composite
def shape_library(draw, max_n=3, kinds=None):
    n = draw(st.integers(1, max_n))
    shape = unit_shape(kinds) if kinds else unit_shape()
    return [{"cmds": draw(shape), "size": draw(st.floats(0.04, 0.2))} for _ in range(n)]


# ------------------------------------------------------------------------------ rendering
def _paint_xml(p, gid):
    if p["k"] == "solid":
        return p["c"], ""
    units = "" if p["units"] == "obb" else ' gradientUnits="userSpaceOnUse"'
    gt = ""
    if p.get("gt"):
        gt = ' gradientTransform="matrix(%s)"' % " ".join(fnum(v) for v in p["gt"])
    spread = "" if p["spread"] == "pad" else ' spreadMethod="%s"' % p["spread"]
    stops = ""
    for off, c, op in p["stops"]:
        stops += '<stop offset="%s" stop-color="%s"%s/>' % (fnum(off), c, "" if op == 1.0 else ' stop-opacity="%s"' % fnum(op))
    if p["k"] == "lin":
        geo = ' x1="%s" y1="%s" x2="%s" y2="%s"' % tuple(fnum(p[k]) for k in ("x1", "y1", "x2", "y2"))
        return "url(#%s)" % gid, '<linearGradient id="%s"%s%s%s%s>%s</linearGradient>' % (gid, geo, units, gt, spread, stops)
    geo = ' cx="%s" cy="%s" r="%s"' % tuple(fnum(p[k]) for k in ("cx", "cy", "r"))
    if (p["fx"], p["fy"]) != (p["cx"], p["cy"]):
        geo += ' fx="%s" fy="%s"' % (fnum(p["fx"]), fnum(p["fy"]))
    if p.get("fr"):
        geo += ' fr="%s"' % fnum(p["fr"])
    return "url(#%s)" % gid, '<radialGradient id="%s"%s%s%s%s>%s</radialGradient>' % (gid, geo, units, gt, spread, stops)


def render(model, nd=6):
    defs = []
    counter = [0]
    shared = {}  # identical gradients are written once and referenced by every shape that uses them (unless "dup_defs")

    def node_xml(n):
        if n["t"] == "g":
            return '<g opacity="%s">%s</g>' % (fnum(n["op"]), "".join(node_xml(k) for k in n["kids"]))
        gid = "g%d" % counter[0]
        counter[0] += 1
        key = None
        if n["fill"]["k"] != "solid" and not model.get("dup_defs"):
            import json

            key = json.dumps(n["fill"], sort_keys=True)
            if key in shared:
                fill, d = "url(#%s)" % shared[key], None
            else:
                shared[key] = gid
                fill, d = _paint_xml(n["fill"], gid)
        else:
            fill, d = _paint_xml(n["fill"], gid)
        if d:
            defs.append(d)
        op = "" if n["op"] == 1.0 else ' opacity="%s"' % fnum(n["op"])
        return '<path d="%s" fill="%s"%s/>' % (cmds_to_d(n["d"], nd), fill, op)

    body = "".join(node_xml(n) for n in model["nodes"])
    vb = " ".join(fnum(v) for v in model["vb"])
    return '<svg xmlns="http://www.w3.org/2000/svg" viewBox="%s"><defs>%s</defs>%s</svg>' % (vb, "".join(defs), body)


def model_paths(model):
    def rec(nodes):
        for n in nodes:
            if n["t"] == "g":
                yield from rec(n["kids"])
            else:
                yield n

    return list(rec(model["nodes"]))


def model_has(model, what):
    paths = model_paths(model)
    if what == "gradient":
        return any(p["fill"]["k"] != "solid" for p in paths)
    if what == "group":
        return any(n["t"] == "g" for n in model["nodes"])
    if what == "lib":
        return sum(1 for p in paths if p.get("tag", "").startswith("lib"))
    raise KeyError(what)


def shrink_model(model):
    """Smaller variants of a source model (drop a node, unwrap a group, simplify a paint)."""
    nodes = model["nodes"]
    for i in range(len(nodes)):
        if len(nodes) > 1:
            yield dict(model, nodes=nodes[:i] + nodes[i + 1 :])
    for i, n in enumerate(nodes):
        if n["t"] == "g":
            yield dict(model, nodes=nodes[:i] + n["kids"] + nodes[i + 1 :])
        elif n["fill"]["k"] != "solid":
            yield dict(model, nodes=nodes[:i] + [dict(n, fill={"k": "solid", "c": "#808080"})] + nodes[i + 1 :])
            if n["fill"].get("gt"):
                yield dict(model, nodes=nodes[:i] + [dict(n, fill=dict(n["fill"], gt=None))] + nodes[i + 1 :])
        elif n["op"] != 1.0:
            yield dict(model, nodes=nodes[:i] + [dict(n, op=1.0)] + nodes[i + 1 :])
