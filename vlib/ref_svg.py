"""Reference interpreter: SVG text -> display tree, written from the SVG specification.

Handles the grammar of picosvg normal form and of nanoemoji's OT-SVG documents / colr_to_svg output:
svg, defs, g (opacity, transform, id), path (d, fill, opacity, fill-opacity, transform),
use (href, x, y, transform, fill, opacity), linearGradient / radialGradient (gradientUnits,
gradientTransform, spreadMethod, geometry, stop offset/stop-color/stop-opacity).
Anything else raises UnsupportedSVG (a harness limitation, never a property verdict).
"""
import math
import re

from fontTools.pens.recordingPen import RecordingPen
from fontTools.svgLib.path import parse_path
from lxml import etree
from PIL import ImageColor

from .display import FG, Grad, Group, Leaf, Solid, splice
from .geom import I, amul, anorm, exact_bounds, flatten_segments, parse_transform, segments, translate

XLINK = "{http://www.w3.org/1999/xlink}href"


class UnsupportedSVG(Exception):
    pass


class BadSVG(Exception):
    """The document itself is wrong (duplicate id, dangling reference, …) – a finding, not a limitation."""

    def __init__(self, kind, msg):
        super().__init__(msg)
        self.kind = kind


_VAR = re.compile(r"var\s*\(\s*--color(\d+)\s*,\s*(.+?)\s*\)\s*$")


def parse_color(s, alpha=1.0):
    """-> Solid. Own parser + PIL's CSS colour table (independent of nanoemoji.colors)."""
    s = s.strip()
    pidx = None
    m = _VAR.match(s)
    if m:
        pidx = int(m.group(1))
        s = m.group(2).strip()
    if s == "currentColor":
        return Solid(FG, alpha, pidx)
    if s.startswith("#"):
        h = s[1:]
        if len(h) in (3, 4):
            h = "".join(c * 2 for c in h)
        if len(h) not in (6, 8) or not re.fullmatch(r"[0-9a-fA-F]+", h):
            raise UnsupportedSVG("colour %r" % s)
        rgb = tuple(float(int(h[i : i + 2], 16)) for i in (0, 2, 4))
        if len(h) == 8:
            alpha = alpha * int(h[6:8], 16) / 255.0
        return Solid(rgb, alpha, pidx)
    m = re.fullmatch(r"rgb\(\s*([^)]*)\)", s)
    if m:
        parts = [v for v in re.split(r"[\s,]+", m.group(1).strip()) if v]
        if len(parts) != 3:
            raise UnsupportedSVG("colour %r" % s)
        vals = []
        for v in parts:
            if v.endswith("%"):
                vals.append(float(v[:-1]) * 255.0 / 100.0)
            else:
                vals.append(float(v))
        return Solid(tuple(float(max(0, min(255, int(math.floor(v + 0.5))))) for v in vals), alpha, pidx)
    key = s.lower()
    if key in ImageColor.colormap:
        v = ImageColor.colormap[key]
        if isinstance(v, str):
            v = ImageColor.getrgb(v)
        return Solid(tuple(float(c) for c in v[:3]), alpha, pidx)
    raise UnsupportedSVG("colour %r" % s)


def num(s, ref=None):
    s = s.strip()
    if s.endswith("%"):
        if ref is None:
            raise UnsupportedSVG("percentage without reference")
        return float(s[:-1]) / 100.0 * ref
    return float(s)


def localname(el):
    return etree.QName(el).localname if isinstance(el.tag, str) else None


class SVGDoc:
    def __init__(self, text):
        if isinstance(text, str):
            text = text.encode("utf-8")
        self.root = etree.fromstring(text)
        if localname(self.root) != "svg":
            raise UnsupportedSVG("root is not svg")
        vb = self.root.get("viewBox")
        self.view_box = tuple(float(v) for v in re.split(r"[\s,]+", vb.strip())) if vb else None
        self.ids = {}
        self.dup_ids = []
        for e in self.root.iter():
            i = e.get("id") if isinstance(e.tag, str) else None
            if i is not None:
                if i in self.ids:
                    self.dup_ids.append(i)
                self.ids[i] = e

    # -- paints
    def _gradient(self, el, path_bounds, opacity, ctm):
        tag = localname(el)
        if el.get(XLINK) or el.get("href"):
            raise UnsupportedSVG("gradient template href")
        units = el.get("gradientUnits", "objectBoundingBox")
        M = parse_transform(el.get("gradientTransform"))
        gt = M if el.get("gradientTransform") else None
        if units == "objectBoundingBox":
            x0, y0, x1, y1 = path_bounds
            if x1 - x0 <= 0 or y1 - y0 <= 0:
                raise UnsupportedSVG("objectBoundingBox on empty box")
            M = amul((x1 - x0, 0.0, 0.0, y1 - y0, x0, y0), M)
            W = H = D = 1.0
        elif units == "userSpaceOnUse":
            if self.view_box:
                W, H = self.view_box[2], self.view_box[3]
                D = math.sqrt((W * W + H * H) / 2.0)
            else:
                W = H = D = None
        else:
            raise UnsupportedSVG("gradientUnits %r" % units)
        stops = []
        last = 0.0
        for st in el:
            if localname(st) != "stop":
                if localname(st) is None:
                    continue
                raise UnsupportedSVG("gradient child %s" % localname(st))
            c = parse_color(st.get("stop-color", "black"))
            off = num(st.get("offset", "0"), 1.0)
            off = max(0.0, min(1.0, off))
            off = max(off, last)  # SVG: each offset is at least the previous one
            last = off
            stops.append((off, c.rgb, c.alpha * num(st.get("stop-opacity", "1"), 1.0) * opacity))
        if len(stops) < 2:
            raise UnsupportedSVG("gradient with < 2 stops")
        ext = el.get("spreadMethod", "pad")
        if ext not in ("pad", "repeat", "reflect"):
            raise UnsupportedSVG("spreadMethod %r" % ext)
        M = amul(ctm, M)
        if tag == "linearGradient":
            x1_ = num(el.get("x1", "0%"), W)
            y1_ = num(el.get("y1", "0%"), H)
            x2_ = num(el.get("x2", "100%"), W)
            y2_ = num(el.get("y2", "0%"), H)
            p0, p1 = (x1_, y1_), (x2_, y2_)
            p2 = (p0[0] - (p1[1] - p0[1]), p0[1] + (p1[0] - p0[0]))
            return Grad("L", (p0, p1, p2), stops, ext, M, "svg", gt)
        if tag == "radialGradient":
            cx = num(el.get("cx", "50%"), W)
            cy = num(el.get("cy", "50%"), H)
            r = num(el.get("r", "50%"), D)
            fx = num(el.get("fx"), W) if el.get("fx") is not None else cx
            fy = num(el.get("fy"), H) if el.get("fy") is not None else cy
            fr = num(el.get("fr", "0"), D)
            return Grad("R", ((fx, fy), fr, (cx, cy), r), stops, ext, M, "svg", gt)
        raise UnsupportedSVG("paint server %s" % tag)

    def _paint(self, fill, opacity, bounds, ctm):
        fill = fill.strip()
        m = re.fullmatch(r"url\(\s*['\"]?#([^)'\"]+)['\"]?\s*\)", fill)
        if m:
            el = self.ids.get(m.group(1))
            if el is None:
                raise BadSVG("dangling-paint", "fill %s does not resolve" % fill)
            return self._gradient(el, bounds, opacity, ctm)
        if fill == "none":
            return None
        return parse_color(fill, opacity)

    ND = 0.0005  # half a unit in the third decimal: what the SVG writer's rounding may move a number by

    def _qerr(self, local_segs, chain):
        """Displacement allowed by 3-decimal rounding of path data and of every transform in the chain
        (outermost first), first-order, in the coordinates after the whole chain."""
        ext = 0.0
        for c in local_segs:
            for sg in c:
                for p in sg[1:]:
                    ext = max(ext, abs(p[0]) + abs(p[1]))
        err = self.ND * 1.42  # the path's own coordinates
        for T in reversed(chain):
            n = anorm(T)
            err = n * err + self.ND * 1.42 * (ext + 1.0)
            ext = 1.42 * n * ext + abs(T[4]) + abs(T[5])
        return err

    def _leaf(self, pel, ctm, inh_fill, extra_opacity, norm, tag, chain=()):
        own = parse_transform(pel.get("transform"))
        if own != I:
            chain = tuple(chain) + (own,)
        ptm = amul(ctm, own)
        rp = RecordingPen()
        parse_path(pel.get("d") or "", rp)
        local = segments(rp.value)
        if not local:
            return None
        fill = pel.get("fill")
        if fill is None:
            fill = inh_fill if inh_fill is not None else "black"
        op = float(pel.get("opacity", "1")) * float(pel.get("fill-opacity", "1")) * extra_opacity
        for k in pel.attrib:
            if k not in ("d", "fill", "opacity", "fill-opacity", "transform", "id", "fill-rule", "clip-rule"):
                raise UnsupportedSVG("path attribute %s" % k)
        if pel.get("fill-rule", "nonzero") != "nonzero":
            raise UnsupportedSVG("fill-rule")
        paint = self._paint(fill, op, exact_bounds(local), ptm)
        if paint is None:
            return None
        segs = segments(rp.value, ptm)
        return Leaf(segs, paint, norm, tag or pel.get("id") or pel.getroottree().getpath(pel), self._qerr(local, chain))

    def _walk(self, el, ctm, inh_fill, scope, chain=()):
        out = []
        for ch in el:
            tag = localname(ch)
            if tag is None:
                continue
            if tag == "defs":
                continue
            if tag == "g":
                for k in ch.attrib:
                    if k not in ("opacity", "transform", "id", "fill"):
                        raise UnsupportedSVG("g attribute %s" % k)
                gt = parse_transform(ch.get("transform"))
                mm = amul(ctm, gt)
                kids = self._walk(ch, mm, ch.get("fill", inh_fill), scope, chain + (gt,) if gt != I else chain)
                out.append(Group(float(ch.get("opacity", "1")), kids))
            elif tag == "path":
                lf = self._leaf(ch, ctm, inh_fill, 1.0, 1.0, None, chain)
                if lf is not None:
                    out.append(lf)
            elif tag == "use":
                href = ch.get(XLINK) or ch.get("href")
                if not href or not href.startswith("#"):
                    raise UnsupportedSVG("use href %r" % href)
                tgt = self.ids.get(href[1:])
                if tgt is None:
                    raise BadSVG("dangling-use", "use %s does not resolve" % href)
                if localname(tgt) != "path":
                    raise UnsupportedSVG("use of <%s>" % localname(tgt))
                for k in ch.attrib:
                    if k not in (XLINK, "href", "x", "y", "transform", "fill", "opacity", "id"):
                        raise UnsupportedSVG("use attribute %s" % k)
                if scope is not None:
                    anc = tgt.getparent()
                    while anc is not None and not re.fullmatch(r"glyph\d+", anc.get("id") or ""):
                        anc = anc.getparent()
                    if anc is not None and anc is not scope:
                        raise BadSVG("cross-glyph-use", "use %s under %s targets content of %s" % (href, scope.get("id"), anc.get("id")))
                ut_attr = parse_transform(ch.get("transform"))
                ut_xy = translate(float(ch.get("x", "0")), float(ch.get("y", "0")))
                ut = amul(ut_attr, ut_xy)
                lf = self._leaf(tgt, amul(ctm, ut), ch.get("fill", inh_fill), float(ch.get("opacity", "1")), anorm(ut), href[1:], chain + tuple(t for t in (ut_attr, ut_xy) if t != I))
                if lf is not None:
                    out.append(lf)
            else:
                raise UnsupportedSVG("element <%s>" % tag)
        return out

    def tree(self):
        """Whole document, in document (viewBox) coordinates."""
        return splice(self._walk(self.root, I, self.root.get("fill"), None))

    def glyph_tree(self, gid):
        """The element with id glyph<gid> rendered on its own (OT-SVG semantics), document coordinates."""
        want = "glyph%d" % gid
        els = [e for e in self.root.iter() if isinstance(e.tag, str) and e.get("id") == want]
        if len(els) != 1:
            raise BadSVG("glyph-id-count", "%d elements with id %s" % (len(els), want))
        g = els[0]
        tag = localname(g)
        if tag == "g":
            ctm = parse_transform(g.get("transform"))
            kids = self._walk(g, ctm, g.get("fill"), g, (ctm,) if ctm != I else ())
            return splice([Group(float(g.get("opacity", "1")), kids)])
        if tag == "path":
            lf = self._leaf(g, I, None, 1.0, 1.0, None)
            return [lf] if lf is not None else []
        if tag == "use":
            wrapper = etree.Element("g")
            # interpret a lone <use> glyph through the generic walker
            parent = g.getparent()
            idx = list(parent).index(g)
            parent.remove(g)
            wrapper.append(g)
            try:
                return splice(self._walk(wrapper, I, None, None))
            finally:
                wrapper.remove(g)
                parent.insert(idx, g)
        raise UnsupportedSVG("glyph element <%s>" % tag)


def ref_svg(text):
    d = SVGDoc(text)
    return d.view_box, d.tree()


# ---------------------------------------------------------------------------- viewBox -> font space (from the property text)
def em_transform(vb, ascender, descender, width, user=I, advance=None):
    """Affine taking viewBox coordinates to font units (y up) as C01 states it; returns (affine, advance)."""
    s = (ascender - descender) / vb[3]
    if advance is None:
        # "round(em height x viewBox width / viewBox height)": Python's round (ties to even), as the tool computes it; C04 accepts
        # either rounding of an exact tie for the advance itself, the picture is centred in the advance the font really has
        advance = max(width, int(round((ascender - descender) * vb[2] / vb[3])))
    dx = (advance - s * vb[2]) / 2.0
    m = (s, 0.0, 0.0, -s, dx - vb[0] * s, ascender + vb[1] * s)
    return amul(tuple(float(v) for v in user), m), advance


def py_round(x):
    """Python's round() (banker's) as used by nanoemoji for the advance."""
    return int(round(x))
