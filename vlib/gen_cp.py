"""Hypothesis strategies for sets of codepoint sequences (DESIGN §2.3)."""
from hypothesis import strategies as st

POOL = [0x41, 0x62, 0x61, 0x66, 0x67, 0x200D, 0xFE0F, 0x1F3FB, 0x1F3FF, 0x1F1E6, 0x1F1E8, 0x23, 0x2A, 0x20E3, 0x2764,
        0x1F600, 0x1F601, 0x1F468, 0x1F469, 0x10FFFF, 0x21, 0xA9, 0xE000, 0xF0000]

# C0 controls U+0001..U+001F are legal cmap entries and their hex spellings are the shortest ones (one digit; a..f look like letters)
scalar = st.one_of(
    st.sampled_from(POOL),
    st.sampled_from(POOL),
    st.sampled_from(POOL),
    st.integers(0x21, 0x10FFFF).filter(lambda c: not (0xD800 <= c <= 0xDFFF)),
    st.integers(0x21, 0x10FFFF).filter(lambda c: not (0xD800 <= c <= 0xDFFF)),
    st.sampled_from([0x0A, 0x0B, 0x0C, 0x0E, 0x0F, 0x01, 0x09, 0x1F]),
)


@st.composite
def sequence(draw, max_len=14):
    n = draw(st.sampled_from([1, 1, 1, 2, 2, 3, 4, 7, max_len]))
    return draw(st.lists(scalar, min_size=n, max_size=n))


@st.composite
def sequence_set(draw, n, max_len=14):
    """n pairwise-distinct sequences, biased so that they interact (prefixes, shared components)."""
    out = []
    seen = set()
    guard = 0
    while len(out) < n and guard < 200:
        guard += 1
        mode = draw(st.sampled_from(["fresh", "fresh", "extend", "share_first", "components"])) if out else "fresh"
        if mode == "fresh":
            s = draw(sequence(max_len))
        elif mode == "extend":
            base = out[draw(st.integers(0, len(out) - 1))]
            s = base + draw(st.lists(scalar, min_size=1, max_size=2))
        elif mode == "share_first":
            base = out[draw(st.integers(0, len(out) - 1))]
            s = [base[0]] + draw(st.lists(scalar, min_size=1, max_size=3))
        else:
            singles = [q[0] for q in out if len(q) == 1]
            if len(singles) >= 2:
                k = draw(st.integers(2, min(4, len(singles))))
                s = [singles[draw(st.integers(0, len(singles) - 1))] for _ in range(k)]
            else:
                s = draw(sequence(max_len))
        s = list(s)[:max_len]
        if tuple(s) in seen:
            continue
        seen.add(tuple(s))
        out.append(s)
    i = 0
    while len(out) < n:  # fall back to private-use singles
        c = 0xE100 + i
        i += 1
        if (c,) not in seen:
            seen.add((c,))
            out.append([c])
    return out


def simple_cps(n, base=0xE000):
    return [[base + i] for i in range(n)]
