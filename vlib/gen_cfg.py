"""Hypothesis strategies for font configurations (DESIGN §2.4). Values are JSON-able dicts of FontConfig fields."""
import math

from hypothesis import strategies as st

from .geom import rotate, scale, skew, translate, amul

COLR1 = ["glyf_colr_1", "cff_colr_1", "cff2_colr_1"]
COLR0 = ["glyf_colr_0", "cff_colr_0", "cff2_colr_0"]
OTSVG_PICO = ["picosvg", "picosvgz"]
OTSVG_RAW = ["untouchedsvg", "untouchedsvgz"]
BITMAP = ["cbdt", "sbix"]
ALL_FORMATS = ["glyf"] + COLR0 + COLR1 + OTSVG_PICO + OTSVG_RAW + BITMAP


@st.composite
def metrics(draw, max_upem=16384):
    upem = draw(st.one_of(st.sampled_from([100, 1000, 1024, 2048, 1024, 1000]), st.integers(16, max_upem)))
    asc = draw(st.integers(max(1, upem // 8), max(2, int(1.3 * upem))))
    desc = -draw(st.integers(0, int(0.6 * upem)))
    if asc - desc < 16:
        asc = 16 + desc
    emh = asc - desc
    width = draw(st.one_of(st.just(0), st.just(emh), st.integers(0, min(32000, int(2.5 * upem)))))
    linegap = draw(st.one_of(st.just(0), st.integers(0, upem // 4)))
    return {"upem": upem, "ascender": asc, "descender": desc, "width": width, "linegap": linegap}


@st.composite
def user_transform(draw, upem):
    k = draw(st.sampled_from(["identity"] * 5 + ["translate", "scale", "rotate", "skew", "reflect"]))
    if k == "identity":
        return [1, 0, 0, 1, 0, 0]
    if k == "translate":
        return [1, 0, 0, 1, draw(st.integers(-upem // 4, upem // 4)), draw(st.integers(-upem // 4, upem // 4))]
    if k == "scale":
        return [draw(st.sampled_from([0.5, 0.75, 0.9, 1.1, 1.25])), 0, 0, draw(st.sampled_from([0.5, 0.75, 0.9, 1.1, 1.25])), 0, 0]
    if k == "rotate":
        return list(rotate(float(draw(st.integers(-30, 30)))))
    if k == "skew":
        return [round(v, 6) for v in skew(draw(st.floats(-20, 20)), 0)]
    return [-1, 0, 0, 1, upem // 2, 0]


@st.composite
def font_config(draw, formats, transforms=True, max_upem=16384):
    cfg = draw(metrics(max_upem))
    cfg["color_format"] = draw(st.sampled_from(list(formats)))
    cfg["transform"] = draw(user_transform(cfg["upem"])) if transforms else [1, 0, 0, 1, 0, 0]
    cfg["reuse_tolerance"] = draw(st.sampled_from([0.1, 0.1, 0.1, -1, 0.01, 0.5, 2.0]))
    cfg["clipbox_quantization"] = draw(st.one_of(st.none(), st.none(), st.just(1), st.integers(2, 256)))
    cfg["keep_glyph_names"] = draw(st.booleans())
    cfg["pretty_print"] = draw(st.booleans())
    return cfg
