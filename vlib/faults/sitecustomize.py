"""Fault injector loaded by every Python build step when vlib/faults is on PYTHONPATH (C09).

VERIF_FAULT = "<target>:<mode>" where target is a module name run with `python -m` (nanoemoji.write_font, nanoemoji.write_glyphmap,
nanoemoji.write_fea, nanoemoji.write_part_file, nanoemoji.write_combined_part_files, nanoemoji.pngquant, zopfli.png), the
basename of a console script (picosvg) or 'driver' (the nanoemoji console script itself), and mode is one of
  fail_before      exit 3 before doing anything
  truncate_fail    let the step run, then halve its output file and exit 4
  truncate_kill    same, then die as if SIGKILLed (exit 137)
  driver_kill_before_ninja     (driver only) die right before ninja is started, build.ninja complete
  driver_truncate_ninja        (driver only) truncate build.ninja, then die
Every firing is appended to $VERIF_FAULT_LOG, because a fault aimed at a step ninja does not re-run never fires."""
import atexit
import os
import sys

_spec = os.environ.get("VERIF_FAULT")
if _spec:
    _target, _mode = _spec.split(":", 1)
    _argv = getattr(sys, "orig_argv", sys.argv)
    _is_module = len(_argv) > 2 and _argv[1] == "-m" and _argv[2] == _target
    _is_script = len(_argv) > 1 and os.path.basename(_argv[1]) == _target
    _is_driver = _target == "driver" and len(_argv) > 1 and os.path.basename(_argv[1]) == "nanoemoji"

    def _log(what):
        p = os.environ.get("VERIF_FAULT_LOG")
        if p:
            with open(p, "a") as f:
                f.write("%s %s %s\n" % (_target, _mode, what))

    def _output_of(argv):
        for i, a in enumerate(argv):
            if a in ("--output_file", "-o") and i + 1 < len(argv):
                return argv[i + 1]
            if a.startswith("--output_file="):
                return a.split("=", 1)[1]
        return None

    if _is_module or _is_script:
        if _mode == "fail_before":
            _log("fired")
            os._exit(3)

        def _after():
            out = _output_of(_argv)
            if out is None and _target == "nanoemoji.write_font":
                # write_font takes its output name from the config file
                try:
                    import toml

                    for i, a in enumerate(_argv):
                        if a == "--config_file":
                            out = toml.load(_argv[i + 1]).get("output_file")
                except Exception:
                    out = None
            if out is None and _target in ("zopfli.png",):
                out = _argv[-1]
            if out and os.path.isdir(out):
                # a UFO master: damage one file inside
                for root, _, files in os.walk(out):
                    for fn in files:
                        if fn.endswith(".glif") or fn.endswith(".plist"):
                            out = os.path.join(root, fn)
                            break
            if out and os.path.isfile(out):
                sz = os.path.getsize(out)
                with open(out, "r+b") as f:
                    f.truncate(sz // 2)
                _log("fired truncated %s to %d" % (out, sz // 2))
            else:
                _log("fired (no output to truncate)")
            os._exit(137 if _mode == "truncate_kill" else 4)

        atexit.register(_after)
    elif _is_driver and _mode.startswith("driver_"):
        import subprocess as _sp

        _orig_run = _sp.run

        def _run(cmd, *a, **k):
            if isinstance(cmd, (list, tuple)) and cmd and cmd[0] == "ninja":
                bf = os.path.join(cmd[cmd.index("-C") + 1], "build.ninja") if "-C" in cmd else "build.ninja"
                if _mode == "driver_truncate_ninja" and os.path.exists(bf):
                    sz = os.path.getsize(bf)
                    with open(bf, "r+b") as f:
                        f.truncate(sz // 2)
                _log("fired")
                os._exit(137)
            return _orig_run(cmd, *a, **k)

        _sp.run = _run
