"""C20 – every configuration option reaches the font it configures."""
import os
import re
import struct

from hypothesis import strategies as st

from .. import build
from ..cli import Workspace, fonts_in, sha, tail
from ..display import Budget, leaves
from ..ref_colr import ColrReader
from ..shaper import shape
from ..vecoracle import Ref, compare_trees, impl_tree
from ..verdict import Verdict

ID = "C20"
LEVEL = "exploration"
RULE = (
    "Single-option cases: a base configuration plus one perturbed FontConfig field, given by flag, by TOML file, or by both with different values "
    "(flag must win), or not given at all (documented default), over a small source set (a square and a 3:2 source, a sequence, two congruent "
    "shapes, content outside the viewBox) in a vector, an OT-SVG and a bitmap format; the real CLI builds the font and a field->observable table is "
    "checked on it: family/version in name+head, upem, ascender/descender/linegap in hhea+OS/2 with USE_TYPO_METRICS, width in the advance rule and "
    "the space advance, color_format in the tables present, output_file in path and outline flavour, keep_glyph_names in post, "
    "clipbox_quantization in clip-box edges, bitmap_resolution in ppem and image height, reuse_tolerance in the number of stored outlines, "
    "clip_to_viewbox in the outline bounds, pretty_print in the SVG text, transform in glyph placement (reference display tree), compression "
    "flags in which intermediate PNG is embedded, glyphmap_generator in glyph names. Pair cases: two TOML configurations in one invocation that "
    "share their sources and differ in one option: the invocation must succeed and each font must be byte-identical to the font its configuration "
    "builds alone. Non-trivial: perturbed value differs from the default and the base; pair differs in exactly the named option."
)
ASSUMPTIONS = ["fea_file is overridden by the driver by design (the statement names the generator): not judged", "SOURCE_DATE_EPOCH fixed for the byte comparisons"]
BUDGET = {"quick": 12, "thorough": 800}
TIMEOUT = {"quick": 1500, "thorough": 7200}

SRC_SQUARE = '<svg xmlns="http://www.w3.org/2000/svg" viewBox="0 0 100 100"><rect x="10" y="20" width="30" height="25" fill="#d01020"/><rect x="55" y="50" width="30" height="25" fill="#2030d0"/><circle cx="95" cy="50" r="20" fill="#10a030"/></svg>'
SRC_WIDE = '<svg xmlns="http://www.w3.org/2000/svg" viewBox="0 0 150 100"><path d="M20,20 L120,30 L100,80 Z" fill="#806040"/></svg>'
FILES = {"emoji_u1f600.svg": SRC_SQUARE, "emoji_u1f601_200d_1f602.svg": SRC_WIDE}

DEFAULTS = {"family": "An Emoji Family", "version_major": 1, "version_minor": 0, "upem": 1024, "ascender": 950, "descender": -250, "linegap": 0, "width": 1275,
            "keep_glyph_names": False, "clipbox_quantization": None, "bitmap_resolution": 128, "reuse_tolerance": 0.1, "clip_to_viewbox": True,
            "pretty_print": False, "transform": "matrix(1 0 0 1 0 0)", "use_pngquant": True, "use_zopflipng": True, "output_file": "AnEmojiFamily.ttf",
            "glyphmap_generator": "nanoemoji.write_glyphmap", "color_format": "glyf_colr_1"}

VALUES = {
    "family": ["Fam Ily", "ƒamily 😀", 'Qu"ote'],
    "version_major": [3, 12],
    "version_minor": [45, 7],
    "upem": [2000, 512],
    "ascender": [800, 1200],
    "descender": [-100, -400],
    "linegap": [77, 5],
    "width": [0, 900, 2000],
    "keep_glyph_names": [True, False],
    "clipbox_quantization": [7, 64],
    "bitmap_resolution": [32, 48],
    "reuse_tolerance": [-1.0, 0.5],
    "clip_to_viewbox": [False, True],
    "pretty_print": [True, False],
    "transform": ["translate(0, 100)", "matrix(1 0 0 1 50 0)", "scale(0.5)"],
    "use_pngquant": [False, True],
    "use_zopflipng": [False, True],
    "output_file": ["Out.ttf", "Other Name.ttf"],
    "glyphmap_generator": ["my_glyphmap"],
    "color_format": ["glyf_colr_0", "picosvg", "picosvgz", "cff_colr_1", "glyf", "cff2_colr_0", "cff_colr_0", "cff2_colr_1"],
}
FAMILY_OF = {"vector": "glyf_colr_1", "otsvg": "picosvg", "bitmap": "cbdt", "cff2": "cff2_colr_1"}  # "cff2": written to an .otf file
APPLIES = {
    "clipbox_quantization": ["vector"], "bitmap_resolution": ["bitmap"], "reuse_tolerance": ["vector", "otsvg"], "clip_to_viewbox": ["vector", "otsvg"],
    "pretty_print": ["otsvg"], "transform": ["vector", "otsvg"], "use_pngquant": ["bitmap"], "use_zopflipng": ["bitmap"], "color_format": ["vector"],
}
PAIR_OPTIONS = {
    "clip_to_viewbox": ("vector", [True, False]), "reuse_tolerance": ("vector", [0.1, -1.0]), "upem": ("vector", [1024, 2048]), "keep_glyph_names": ("vector", [False, True]),
    "color_format": ("vector", ["glyf_colr_1", "picosvg"]), "bitmap_resolution": ("bitmap", [32, 48]), "use_pngquant": ("bitmap", [True, False]),
    "use_zopflipng": ("bitmap", [True, False]), "width": ("otsvg", [1275, 0]), "ascender": ("vector", [950, 800]),
    "glyphmap_generator": ("vector", ["nanoemoji.write_glyphmap", "my_glyphmap"]),
}

MY_GLYPHMAP = '''import sys
from pathlib import Path
from nanoemoji import codepoints, util
from nanoemoji.glyphmap import GlyphMapping
from absl import app, flags
FLAGS = flags.FLAGS
flags.DEFINE_string("output_file", "-", "")
def main(argv):
    files = util.expand_ninja_response_files(argv[1:])
    with util.file_printer(FLAGS.output_file) as print:
        for f in files:
            p = Path(f)
            cps = tuple(codepoints.from_filename(p.stem))
            svg, png = (p, None) if p.suffix == ".svg" else (None, p)
            print(GlyphMapping(svg, png, cps, "custom_" + "_".join("%x" % c for c in cps)).csv_line())
if __name__ == "__main__":
    app.run(main)
'''


def setup_worker():
    build.init()


@st.composite
def case_st(draw, tier):
    if draw(st.integers(0, 4)) == 0:
        opt = draw(st.sampled_from(sorted(PAIR_OPTIONS)))
        fam, vals = PAIR_OPTIONS[opt]
        return {"t": "pair", "option": opt, "family": fam, "values": vals, "share": draw(st.sampled_from(["all", "all", "partial"]))}
    field = draw(st.sampled_from(sorted(VALUES)))
    fam = draw(st.sampled_from(APPLIES.get(field, ["vector", "otsvg", "bitmap"])))
    vals = VALUES[field]
    channel = draw(st.sampled_from(["flag", "file", "both", "none"]))
    v1 = draw(st.sampled_from(vals))
    v2 = draw(st.sampled_from([x for x in vals if x != v1] or vals))
    return {"t": "single", "field": field, "family": fam, "channel": channel, "value": v1, "other": v2}


def cases(tier):
    return case_st(tier)


def enumerate_cases(tier):
    """The finite part of the domain, enumerated on every run: each FontConfig field of the table once by flag and once by
    file (quick; family and value rotate with VERIF_SEED) resp. every channel x family (thorough), and every pair option
    (quick: shared sources; thorough: also partially shared)."""
    seed = int(os.environ.get("VERIF_SEED") or "1")
    for fi, field in enumerate(sorted(VALUES)):
        fams = APPLIES.get(field, ["vector", "otsvg", "bitmap"])
        vals = VALUES[field]
        if tier == "quick":
            combos = [(fams[(seed + fi) % len(fams)], "flag"), (fams[(seed + fi + 1) % len(fams)], "file")]
        else:
            combos = [(fam, ch) for fam in fams for ch in ("flag", "file", "both", "none")]
        for k, (fam, ch) in enumerate(combos):
            v1 = vals[(seed + k) % len(vals)]
            v2 = vals[(seed + k + 1) % len(vals)]
            yield {"t": "single", "field": field, "family": fam, "channel": ch, "value": v1, "other": v2}
        if field == "color_format" and tier == "quick":
            # every colour format once on every run (alternating flag / file): each is one table entry in the tool
            for k, v1 in enumerate(vals):
                yield {"t": "single", "field": field, "family": fams[0], "channel": ("flag", "file")[k % 2], "value": v1, "other": vals[(k + 1) % len(vals)]}
    # every CFF-flavoured colour format written to an .otf file: format x extension decide the outline table together
    for k, v1 in enumerate(["cff2_colr_0", "cff_colr_0", "cff2_colr_1", "cff_colr_1"]):
        yield {"t": "single", "field": "color_format", "family": "cff2", "channel": ("file", "flag")[k % 2], "value": v1, "other": "glyf_colr_1"}
    # CFF2 outlines (an .otf output): glyph names can only live in post there
    for ch, val in (("none", False), ("flag", True), ("both", False), ("file", True)):
        yield {"t": "single", "field": "keep_glyph_names", "family": "cff2", "channel": ch, "value": val, "other": not val}
    for opt in sorted(PAIR_OPTIONS):
        fam, vals = PAIR_OPTIONS[opt]
        for share in (("all",) if tier == "quick" else ("all", "partial")):
            yield {"t": "pair", "option": opt, "family": fam, "values": vals, "share": share}
    # two configurations that differ in nothing but their family name and their source directory (common and private file names)
    for share in ("dirs", "dirs-rev"):
        for fam, fmt in (("vector", "glyf_colr_1"), ("otsvg", "picosvg")) if tier != "quick" or share == "dirs-rev" else (("vector", "glyf_colr_1"),):
            yield {"t": "pair", "option": "color_format", "family": fam, "values": [fmt, fmt], "share": share}


# --------------------------------------------------------------------------------------------- helpers
def toml_value(val):
    if isinstance(val, bool):
        return "true" if val else "false"
    if isinstance(val, str):
        return '"%s"' % val.replace("\\", "\\\\").replace('"', '\\"')
    return repr(val)


def write_toml(ws, name, opts, srcs='["src/*.svg"]'):
    lines = ["%s = %s" % (k, toml_value(x)) for k, x in sorted(opts.items()) if x is not None]
    lines += ["[axis.wght]", 'name = "Weight"', "default = 400", "[master.regular]", 'style_name = "Regular"', "srcs = %s" % srcs, "[master.regular.position]", "wght = 400"]
    ws.write(name, "\n".join(lines) + "\n")


def flag_args(opts):
    out = []
    for k, val in sorted(opts.items()):
        if isinstance(val, bool):
            out.append("--%s%s" % ("" if val else "no", k))
        else:
            out += ["--" + k, str(val)]
    return out


def png_size(data):
    return struct.unpack(">II", data[16:24])


def observe(font, path, ws, builddir):
    """Everything the table needs, read back from the written font."""
    from fontTools.pens.recordingPen import DecomposingRecordingPen

    from ..geom import exact_bounds, segments

    o = {}
    n = font["name"]
    o["family"] = n.getDebugName(1)
    o["fullname"] = n.getDebugName(4)
    o["version_string"] = n.getDebugName(5)
    o["revision"] = round(font["head"].fontRevision, 3)
    o["upem"] = font["head"].unitsPerEm
    o["hhea"] = (font["hhea"].ascent, font["hhea"].descent, font["hhea"].lineGap)
    o["typo"] = (font["OS/2"].sTypoAscender, font["OS/2"].sTypoDescender, font["OS/2"].sTypoLineGap)
    o["use_typo"] = bool(font["OS/2"].fsSelection & 128)
    o["post"] = font["post"].formatType
    o["tables"] = sorted(t for t in font.keys() if t in ("COLR", "CPAL", "SVG ", "CBDT", "CBLC", "sbix", "glyf", "CFF ", "CFF2"))
    cmap = font.getBestCmap()
    o["space_adv"] = font["hmtx"][cmap[0x20]][0] if 0x20 in cmap else None
    g1 = shape(font, [0x1F600])
    g2 = shape(font, [0x1F601, 0x200D, 0x1F602])
    o["g1"] = g1[0] if g1 and len(g1) == 1 else None
    o["g2"] = g2[0] if g2 and len(g2) == 1 else None
    o["adv1"] = font["hmtx"][o["g1"]][0] if o["g1"] else None
    o["adv2"] = font["hmtx"][o["g2"]][0] if o["g2"] else None
    o["names"] = font.getGlyphOrder()
    if "COLR" in font:
        o["colr_version"] = font["COLR"].version
        rd = ColrReader(font)
        o["clips"] = [rd.clipbox(g) for g in (o["g1"], o["g2"]) if g and rd.clipbox(g)]
        if o["g1"]:
            t = rd.tree(o["g1"])
            from .c19 import _stored_outline

            o["outline_glyphs"] = sorted({_stored_outline(font, lf.tag) for lf in leaves(t)})
            bs = [lf.bounds for lf in leaves(t) if lf.bounds]
            o["g1_bounds"] = (min(b[0] for b in bs), min(b[1] for b in bs), max(b[2] for b in bs), max(b[3] for b in bs)) if bs else None
    if "SVG " in font:
        docs = font["SVG "].docList
        o["svg_compressed"] = any(getattr(d, "compressed", False) for d in docs)
        from ..vecoracle import svg_doc_for_gid

        if o["g1"]:
            hit = svg_doc_for_gid(font, font.getGlyphID(o["g1"]))
            o["svg_text"] = hit[0] if hit else None
            t, _ = impl_tree(font, o["g1"])
            o["outline_glyphs"] = sorted({lf.tag for lf in leaves(t)})
            bs = [lf.bounds for lf in leaves(t) if lf.bounds]
            o["g1_bounds"] = (min(b[0] for b in bs), min(b[1] for b in bs), max(b[2] for b in bs), max(b[3] for b in bs)) if bs else None
    if "CBLC" in font:
        o["ppem"] = [s.bitmapSizeTable.ppemX for s in font["CBLC"].strikes]
        recs = [sd[o["g1"]] for sd in font["CBDT"].strikeData if o["g1"] in sd]
        if recs:
            o["png"] = bytes(recs[0].imageData)
            o["png_size"] = png_size(o["png"])
    return o


def expected_value(case):
    f = case["field"]
    ch = case["channel"]
    if ch == "flag" or ch == "both":
        return case["value"]  # flag wins
    if ch == "file":
        return case["value"]
    return DEFAULTS[f]


def build_single(ws, case):
    f, ch = case["field"], case["channel"]
    base = {"color_format": FAMILY_OF[case["family"]]}
    if case["family"] == "bitmap" and f != "bitmap_resolution":
        base["bitmap_resolution"] = 40
    if case["family"] == "cff2" and f != "output_file":
        base["output_file"] = "Font.otf"  # the extension decides the outline flavour
    file_opts = dict(base)
    flags_ = {}
    if ch == "flag":
        flags_[f] = case["value"]
    elif ch == "file":
        file_opts[f] = case["value"]
    elif ch == "both":
        flags_[f] = case["value"]
        file_opts[f] = case["other"]
    if f == "color_format" and ch == "none":
        file_opts.pop("color_format")
    for name, text in FILES.items():
        ws.write("src/" + name, text)
    ws.write("my_glyphmap.py", MY_GLYPHMAP)
    # keep names so that post/glyph-name observables are readable, unless that is the subject
    if f != "keep_glyph_names" and f != "glyphmap_generator":
        pass
    if f == "glyphmap_generator":
        file_opts["keep_glyph_names"] = True
    write_toml(ws, "font.toml", file_opts)
    args = ["nanoemoji", "--build_dir", "build"] + flag_args(flags_) + ["font.toml"]
    rc, out = ws.run(args, env={"PYTHONPATH": os.environ.get("VERIF_REPO", "/repo") + "/src:" + ws.root}, ninja_j=4)
    return rc, out, dict(base, **{k: x for k, x in file_opts.items()}), flags_


def judge_single(case, v):
    from fontTools.ttLib import TTFont

    f, ch, fam = case["field"], case["channel"], case["family"]
    v.cls("field:" + f, "channel:" + ch, "family:" + fam)
    want = expected_value(case)
    v.nontrivial = ch != "none" and want != DEFAULTS.get(f)
    with Workspace("c20") as ws:
        ws.shims()
        rc, out, file_opts, flags_ = build_single(ws, case)
        if rc != 0:
            v.fail("build-failed", "%s:%s" % (f, ch), {"out": tail(out, 8), "case": case})
            return
        eff = dict(DEFAULTS)
        eff["color_format"] = FAMILY_OF[fam]
        eff.update(file_opts)
        eff.update(flags_)
        eff[f] = want
        out_name = eff["output_file"]
        if out_name == DEFAULTS["output_file"] and eff["color_format"].startswith("cff"):
            pass
        path = ws.path("build", out_name)
        if not os.path.exists(path):
            v.fail("output-file", "%s:%s" % (f, ch), {"expected_path": "build/" + out_name, "present": [os.path.basename(p) for p in fonts_in(ws.path("build"))]})
            return
        font = TTFont(path, lazy=False)
        o = observe(font, path, ws, ws.path("build"))
        emh = eff["ascender"] - eff["descender"]

        def bad(what, got, exp):
            v.fail("option-not-reflected", "%s:%s" % (f, ch), {"observable": what, "got": got, "expected": exp, "case": case})

        # the table (everything is checked on every build: a perturbation must also leave the other observables alone)
        if o["family"] != eff["family"]:
            bad("name ID 1", o["family"], eff["family"])
        if eff["family"] not in (o["fullname"] or ""):
            bad("name ID 4 contains family", o["fullname"], eff["family"])
        exp_rev = round(eff["version_major"] + eff["version_minor"] / 1000.0, 3)
        if abs(o["revision"] - exp_rev) > 0.0006:
            bad("head.fontRevision", o["revision"], exp_rev)
        if ("%d.%03d" % (eff["version_major"], eff["version_minor"])) not in (o["version_string"] or ""):
            bad("name ID 5", o["version_string"], "%d.%03d" % (eff["version_major"], eff["version_minor"]))
        if o["upem"] != eff["upem"]:
            bad("head.unitsPerEm", o["upem"], eff["upem"])
        if o["hhea"] != (eff["ascender"], eff["descender"], eff["linegap"]):
            bad("hhea", o["hhea"], (eff["ascender"], eff["descender"], eff["linegap"]))
        if o["typo"] != (eff["ascender"], eff["descender"], eff["linegap"]) or not o["use_typo"]:
            bad("OS/2 typo + USE_TYPO_METRICS", (o["typo"], o["use_typo"]), (eff["ascender"], eff["descender"], eff["linegap"]))
        if o["space_adv"] != eff["width"]:
            bad("space advance", o["space_adv"], eff["width"])
        if o["g1"] is None or o["g2"] is None:
            bad("sources reachable", (o["g1"], o["g2"]), "both")
            return
        if o["adv1"] != max(eff["width"], emh):
            bad("advance of the square glyph", o["adv1"], max(eff["width"], emh))
        if o["adv2"] != max(eff["width"], round(emh * 1.5)):
            bad("advance of the 3:2 glyph", o["adv2"], max(eff["width"], round(emh * 1.5)))
        fmt = eff["color_format"]
        # the colour format decides the colour tables; the output file's extension decides the outline flavour
        outline = "glyf" if out_name.endswith(".ttf") else ("CFF2" if fmt.startswith("cff2") else "CFF ")
        exp_tables = {"glyf_colr_1": ["COLR", "CPAL"], "glyf_colr_0": ["COLR", "CPAL"], "picosvg": ["SVG "], "picosvgz": ["SVG "],
                      "cff_colr_1": ["COLR", "CPAL"], "cff_colr_0": ["COLR", "CPAL"], "cff2_colr_0": ["COLR", "CPAL"], "cff2_colr_1": ["COLR", "CPAL"],
                      "glyf": [], "cbdt": ["CBDT", "CBLC"]}[fmt] + [outline]
        if o["tables"] != sorted(exp_tables):
            bad("tables present", o["tables"], sorted(exp_tables))
        if "COLR" in font and o.get("colr_version") != (0 if fmt.endswith("_0") else 1):
            bad("COLR version", o.get("colr_version"), fmt)
        if fmt.startswith("picosvg") and bool(o.get("svg_compressed")) != fmt.endswith("z"):
            bad("SVG compression", o.get("svg_compressed"), fmt)
        exp_post = 2 if eff["keep_glyph_names"] else 3
        if outline == "CFF ":
            pass  # CFF 1 keeps glyph names in its own charset; post is nameless either way
        elif o["post"] != exp_post:
            bad("post format", o["post"], exp_post)  # glyf and CFF2: the names live in post, or nowhere
        if eff["keep_glyph_names"] and outline == "glyf":
            exp_name = "custom_1f600" if eff["glyphmap_generator"] == "my_glyphmap" else "g_1f600"
            if exp_name not in o["names"]:
                bad("glyph names", [n for n in o["names"] if "1f600" in n], exp_name)
        if fmt.endswith("colr_1"):
            q = eff["clipbox_quantization"] or round(0.02 * eff["upem"])
            for box in o.get("clips", []):
                if q > 1 and any(e % q for e in box):
                    bad("clip box grid", box, q)
            if f == "clipbox_quantization" and want is not None and o.get("clips"):
                # the perturbed step must really be the one in force: the default grid (2% upem) would not produce these edges in general
                dq = round(0.02 * eff["upem"])
                if all(all(e % dq == 0 for e in box) for box in o["clips"]) and dq % want != 0 and want % dq != 0:
                    bad("clip box uses the default grid", o["clips"], want)
        if fmt == "cbdt":
            exp_ppem = round(eff["upem"] * eff["bitmap_resolution"] / emh)
            if o.get("ppem") != [exp_ppem]:
                bad("strike ppem", o.get("ppem"), exp_ppem)
            if o.get("png_size", (0, 0))[1] != eff["bitmap_resolution"]:
                bad("bitmap height", o.get("png_size"), eff["bitmap_resolution"])
            stem = "emoji_u1f600.png"
            src_dir = "zopflipng" if eff["use_zopflipng"] else ("pngquant" if eff["use_pngquant"] else "bitmap")
            p = ws.path("build", src_dir, stem)
            if not os.path.exists(p) or open(p, "rb").read() != o.get("png"):
                bad("embedded PNG is the %s output" % src_dir, None if not os.path.exists(p) else "differs", src_dir)
            for dname, used in (("pngquant", eff["use_pngquant"]), ("zopflipng", eff["use_zopflipng"])):
                if os.path.exists(ws.path("build", dname, stem)) != used:
                    bad("%s step run" % dname, os.path.exists(ws.path("build", dname, stem)), used)
        if fmt in ("glyf_colr_1", "glyf_colr_0", "picosvg", "picosvgz", "cff_colr_1") and o.get("outline_glyphs") is not None:
            # two congruent rectangles + a circle: 2 stored outlines with reuse, 3 without
            n_out = len(o["outline_glyphs"])
            exp_n = 3 if eff["reuse_tolerance"] == -1 else 2
            if n_out != exp_n:
                bad("stored outlines for two congruent shapes", n_out, exp_n)
            # circle reaches x = 115 in a 100 wide viewBox: clipped or not
            b = o.get("g1_bounds")
            if b is not None and list(eff["transform"]) == list(DEFAULTS["transform"]):
                scale = emh / 100.0
                adv = max(eff["width"], emh)
                right_edge = (adv - emh) / 2.0 + 100 * scale
                overshoot = b[2] - right_edge
                if eff["clip_to_viewbox"] and overshoot > 2 + 0.002 * eff["upem"]:
                    bad("content clipped to the viewBox", overshoot, "<= 0")
                if not eff["clip_to_viewbox"] and overshoot < 10 * scale:
                    bad("content outside the viewBox kept", overshoot, ">= %g" % (15 * scale))
        if fmt.startswith("picosvg") and not fmt.endswith("z") and o.get("svg_text"):
            pretty = "\n  <" in o["svg_text"]
            if pretty != eff["pretty_print"]:
                bad("SVG pretty printing", pretty, eff["pretty_print"])
        if f == "transform" and fmt in ("glyf_colr_1", "picosvg"):
            from ..geom import parse_transform
            from picosvg.svg import SVG

            norm = SVG.fromstring(FILES["emoji_u1f600.svg"]).topicosvg()
            if eff["clip_to_viewbox"]:
                norm = norm.clip_to_viewbox(inplace=False) if hasattr(norm, "clip_to_viewbox") else norm
            cfgd = {"ascender": eff["ascender"], "descender": eff["descender"], "width": eff["width"], "transform": list(parse_transform(want if isinstance(want, str) else "")), "upem": eff["upem"]}
            rf = Ref(norm.tostring(), cfgd)
            impl, kind = impl_tree(font, o["g1"])
            bud = Budget("colr" if kind == "colr" else "otsvg", eff["upem"], 0.1, rf.scale * rf.user_norm)
            res, _ = compare_trees(impl, rf.tree, bud)
            res = [r for r in res if r[0] in ("OUTLINE", "COUNT")]
            if res:
                bad("glyph placement under the user transform", res[0][2], want)


def judge_pair(case, v):
    opt, fam = case["option"], case["family"]
    v.cls("pair:" + opt, "family:" + fam)
    v.nontrivial = True
    a, b = case["values"]
    base = {"color_format": FAMILY_OF[fam]}
    if fam == "bitmap":
        base["bitmap_resolution"] = 40
    cfgs = []
    if opt == "glyphmap_generator":
        base["keep_glyph_names"] = True
    pyenv = {"PYTHONPATH": os.environ.get("VERIF_REPO", "/repo") + "/src"}
    for i, val in enumerate((a, b)):
        c = dict(base)
        c[opt] = val
        c["output_file"] = "Font%s.ttf" % "AB"[i]
        c["family"] = "Pair %s" % "AB"[i]
        cfgs.append(c)
    files = dict(FILES)
    files["emoji_u1f603.svg"] = SRC_WIDE.replace("#806040", "#405060")
    srcs = ['["src/*.svg"]', '["src/*.svg"]'] if case["share"] == "all" else ['["src/emoji_u1f600.svg", "src/emoji_u1f601_200d_1f602.svg"]', '["src/emoji_u1f600.svg", "src/emoji_u1f603.svg"]']
    order = ["c0.toml", "c1.toml"]
    if case["share"].startswith("dirs"):
        # two source directories with some file names in common (different artwork under the same name) and some not; the
        # configurations are given in either order
        f0 = {"src/" + k: x for k, x in FILES.items()}
        f1 = {"src2/emoji_u1f600.svg": SRC_WIDE.replace("#806040", "#204080"), "src2/emoji_u1f603.svg": SRC_WIDE.replace("#806040", "#405060"),
              "src2/emoji_u1f468_200d_1f469.svg": FILES["emoji_u1f600.svg"]}
        files = dict(f0, **f1)
        srcs = ['["src/*.svg"]', '["src2/*.svg"]']
        if case["share"] == "dirs-rev":
            order = ["c1.toml", "c0.toml"]
    else:
        files = {"src/" + k: x for k, x in files.items()}
    solo = []
    for i, c in enumerate(cfgs):
        with Workspace("c20solo") as ws:
            ws.shims()
            for name, text in files.items():
                ws.write(name, text)
            write_toml(ws, "c%d.toml" % i, c, srcs[i])
            ws.write("my_glyphmap.py", MY_GLYPHMAP)
            rc, out = ws.run(["nanoemoji", "--build_dir", "build", "c%d.toml" % i], ninja_j=4, env={"PYTHONPATH": pyenv["PYTHONPATH"] + ":" + ws.root})
            solo.append((rc, sha(ws.path("build", c["output_file"])), tail(out, 4)))
    if any(rc != 0 for rc, _, _ in solo):
        v.rejected = "a solo build fails"
        return
    with Workspace("c20pair") as ws:
        ws.shims()
        for name, text in files.items():
            ws.write(name, text)
        for i, c in enumerate(cfgs):
            write_toml(ws, "c%d.toml" % i, c, srcs[i])
        ws.write("my_glyphmap.py", MY_GLYPHMAP)
        rc, out = ws.run(["nanoemoji", "--build_dir", "build"] + order, ninja_j=4, env={"PYTHONPATH": pyenv["PYTHONPATH"] + ":" + ws.root})
        if rc != 0:
            v.fail("pair-build-failed", "%s:%s" % (opt, case["share"]), {"out": "\n".join(l for l in out.splitlines() if "rror" in l or "FAILED" in l or l.startswith("ninja:"))[-1200:], "values": case["values"]})
            return
        for i, c in enumerate(cfgs):
            h = sha(ws.path("build", c["output_file"]))
            if h != solo[i][1]:
                v.fail("pair-font-differs-from-solo", "%s:%s" % (opt, case["share"]), {"config": i, "option": opt, "value": c[opt], "joint": h, "solo": solo[i][1]})


def judge(case):
    v = Verdict()
    if case["t"] == "single":
        judge_single(case, v)
    else:
        judge_pair(case, v)
    return v
