"""C13 – COLR-to-SVG conversion preserves the picture for supported paint graphs."""
import math
from collections import OrderedDict

from hypothesis import strategies as st

from .. import build
from ..display import Budget, Grad, Solid, leaves, map_tree
from ..minifont import make_font
from ..ref_colr import BadCOLR, ColrReader, UnsupportedPaint
from ..ref_svg import BadSVG, SVGDoc, UnsupportedSVG, em_transform
from ..vecoracle import compare_trees
from ..verdict import Verdict

ID = "C13"
LEVEL = "exploration"
RULE = (
    "Hypothesis builds small fonts (fontBuilder + colorLib): 3 simple and 1 composite outline glyph, 1-3 base glyphs with different advances, "
    "paint graphs from a recursive strategy of depth <= 6 over PaintColrLayers, PaintSolid, PaintLinearGradient (incl. oblique p2), "
    "PaintRadialGradient (r0 >= 0, focal circle inside, concentric or not), PaintGlyph, PaintColrGlyph (acyclic), PaintTransform, PaintTranslate, "
    "PaintScale / AroundCenter / Uniform / UniformAroundCenter, PaintRotate(AroundCenter), PaintSkew(AroundCenter), PaintComposite(SRC_IN, solid "
    "black alpha); all extend modes; 1-3 palettes; foreground colour; COLRv0 fonts too; viewBox callback in {glyph_region, fixed square, offset "
    "non-square}. Oracle: display tree of colr_to_svg's output (own SVG interpreter), mapped back to the em box by the statement's rule with the "
    "glyph's real advance, == display tree of the paint graph (own COLR interpreter); currentColor <-> foreground, var(--colorN) <-> entry N in "
    "multi-palette fonts. A second strategy plants one unsupported node (sweep gradient, other composite mode, non-black backdrop, variable "
    "paint): the conversion must raise or log a warning. A quarter of the cases draw every glyph's fills from one pool of 2-3 gradients (the same "
    "gradient in several glyphs, at different positions among each glyph's fills). Non-trivial: depth >= 3 with a transform paint and a gradient or a PaintColrGlyph."
)
ASSUMPTIONS = ["fontTools colorLib builds and decompiles the generated COLR faithfully", "both interpreters are ours: only nanoemoji's conversion is judged"]
BUDGET = {"quick": 1280, "thorough": 48000}
TIMEOUT = {"quick": 900, "thorough": 7200}

OUTLINES = {
    "sq": ([[(100, 100), (100, 500), (600, 500), (600, 100)]], None),
    "tri": ([[(200, 0), (500, 700), (800, 50)]], None),
    "ring": ([[(150, -100), (150, 600), (850, 600), (850, -100)], [(300, 50), (700, 50), (700, 450), (300, 450)]], None),
}


def setup_worker():
    build.init()


ints = st.integers
fl = lambda a, b: st.floats(a, b, allow_nan=False, allow_infinity=False).map(lambda x: round(x, 4))


@st.composite
def colorline(draw, npal):
    n = draw(ints(2, 4))
    offs = sorted(draw(st.lists(fl(0, 1), min_size=n, max_size=n)))
    if draw(st.sampled_from([True] * 9 + [False])):
        offs[0], offs[-1] = 0.0, 1.0
    if offs[-1] - offs[0] < 0.1:
        offs[0], offs[-1] = 0.0, 1.0
    stops = [{"StopOffset": o, "PaletteIndex": draw(st.sampled_from([0, 1, 2, 2, 0xFFFF])), "Alpha": draw(st.sampled_from([1.0, 1.0, 0.5, 0.25]))} for o in offs]
    return {"ColorStop": stops, "Extend": draw(st.sampled_from(["pad", "repeat", "reflect"]))}


@st.composite
def fill(draw, npal):
    k = draw(st.sampled_from(["solid", "solid", "lin", "rad"]))
    if k == "solid":
        return {"Format": 2, "PaletteIndex": draw(st.sampled_from([0, 1, 2, 3, 0xFFFF])), "Alpha": draw(st.sampled_from([1.0, 1.0, 0.5]))}  # 3 = black: SVG's initial fill
    if k == "lin":
        x0, y0 = draw(ints(0, 600)), draw(ints(0, 600))
        ang, ln = draw(fl(0, 6.28)), draw(ints(150, 500))
        x1, y1 = x0 + int(ln * math.cos(ang)), y0 + int(ln * math.sin(ang))
        if draw(st.booleans()):
            x2, y2 = x0 - (y1 - y0), y0 + (x1 - x0)
        else:
            a2, l2 = ang + draw(fl(0.6, 2.5)), draw(ints(150, 400))
            x2, y2 = x0 + int(l2 * math.cos(a2)), y0 + int(l2 * math.sin(a2))
        return {"Format": 4, "ColorLine": draw(colorline(npal)), "x0": x0, "y0": y0, "x1": x1, "y1": y1, "x2": x2, "y2": y2}
    cx, cy, r1 = draw(ints(100, 600)), draw(ints(100, 600)), draw(ints(120, 400))
    rho, th = draw(fl(0.05, 0.55)), draw(fl(0, 6.28))
    fx, fy = cx + int(rho * r1 * math.cos(th)), cy + int(rho * r1 * math.sin(th))
    if (fx, fy) == (cx, cy):
        fx += 7
    r0 = draw(st.sampled_from([0, 0, 1])) * draw(ints(1, max(1, int(0.25 * r1 * (1 - rho)))))
    if draw(st.sampled_from([False] * 4 + [True])):
        # concentric circles, with or without an inner radius (a ring gradient)
        fx, fy = cx, cy
        r0 = draw(st.sampled_from([0, 1, 1])) * draw(ints(1, max(1, int(0.6 * r1))))
    return {"Format": 6, "ColorLine": draw(colorline(npal)), "x0": fx, "y0": fy, "r0": r0, "x1": cx, "y1": cy, "r1": r1}


@st.composite
def wrap_transform(draw, child):
    k = draw(st.sampled_from(["T", "Tr", "S", "SC", "SU", "SUC", "R", "RC", "K", "KC"]))
    cx, cy = draw(ints(-200, 800)), draw(ints(-200, 800))
    if k == "T":
        return {"Format": 12, "Transform": (draw(fl(0.5, 1.5)), draw(fl(-0.45, 0.45)), draw(fl(-0.45, 0.45)), draw(fl(0.5, 1.5)),  # det >= 0.0475: never singular
                draw(ints(-100, 100)), draw(ints(-100, 100))), "Paint": child}
    if k == "Tr":
        return {"Format": 14, "dx": draw(ints(-300, 300)), "dy": draw(ints(-300, 300)), "Paint": child}
    if k == "S":
        return {"Format": 16, "scaleX": draw(fl(0.4, 1.8)), "scaleY": draw(st.sampled_from([1, 1, -1])) * draw(fl(0.4, 1.8)), "Paint": child}
    if k == "SC":
        return {"Format": 18, "scaleX": draw(fl(0.4, 1.8)), "scaleY": draw(fl(0.4, 1.8)), "centerX": cx, "centerY": cy, "Paint": child}
    if k == "SU":
        return {"Format": 20, "scale": draw(fl(0.4, 1.8)), "Paint": child}
    if k == "SUC":
        return {"Format": 22, "scale": draw(fl(0.4, 1.8)), "centerX": cx, "centerY": cy, "Paint": child}
    if k == "R":
        return {"Format": 24, "angle": draw(fl(-170, 170)), "Paint": child}
    if k == "RC":
        return {"Format": 26, "angle": draw(fl(-170, 170)), "centerX": cx, "centerY": cy, "Paint": child}
    if k == "K":
        return {"Format": 28, "xSkewAngle": draw(fl(-40, 40)), "ySkewAngle": draw(fl(-40, 40)), "Paint": child}
    return {"Format": 30, "xSkewAngle": draw(fl(-40, 40)), "ySkewAngle": draw(fl(-40, 40)), "centerX": cx, "centerY": cy, "Paint": child}


@st.composite
def node(draw, depth, npal, colr_glyphs, outline_names):
    """A paint that *draws* (layers / glyph / transform of those / composite group / colr glyph)."""
    kinds = ["glyph", "glyph", "glyph"]
    if depth > 1:
        kinds += ["layers", "transform", "transform", "group"]
        if colr_glyphs:
            kinds.append("colrglyph")
    k = draw(st.sampled_from(kinds))
    if k == "glyph":
        f = draw(fill(npal))
        for _ in range(draw(st.sampled_from([0, 0, 1, 2]))):
            f = draw(wrap_transform(f))
        return {"Format": 10, "Glyph": draw(st.sampled_from(outline_names)), "Paint": f}
    if k == "layers":
        n = draw(ints(2, 3))
        return {"Format": 1, "Layers": [draw(node(depth - 1, npal, colr_glyphs, outline_names)) for _ in range(n)]}
    if k == "transform":
        return draw(wrap_transform(draw(node(depth - 1, npal, colr_glyphs, outline_names))))
    if k == "group":
        n = draw(ints(2, 3))
        src = {"Format": 1, "Layers": [draw(node(depth - 2, npal, colr_glyphs, outline_names)) for _ in range(n)]}
        return {"Format": 32, "CompositeMode": "src_in", "SourcePaint": src, "BackdropPaint": {"Format": 2, "PaletteIndex": 3, "Alpha": draw(st.sampled_from([0.5, 0.25, 0.75]))}}
    return {"Format": 11, "Glyph": draw(st.sampled_from(colr_glyphs))}


UNSUPPORTED = ["sweep", "composite_mode", "nonblack_backdrop", "var_solid"]


def plant_unsupported(draw, which):
    if which == "sweep":
        return {"Format": 10, "Glyph": "sq", "Paint": {"Format": 8, "ColorLine": {"ColorStop": [(0, 0), (1, 1)], "Extend": "pad"}, "centerX": 300, "centerY": 300, "startAngle": 0, "endAngle": 180}}
    base = {"Format": 1, "Layers": [{"Format": 10, "Glyph": "sq", "Paint": {"Format": 2, "PaletteIndex": 0, "Alpha": 1.0}}, {"Format": 10, "Glyph": "tri", "Paint": {"Format": 2, "PaletteIndex": 1, "Alpha": 1.0}}]}
    if which == "composite_mode":
        return {"Format": 32, "CompositeMode": draw(st.sampled_from(["multiply", "src_over", "xor", "dest_in"])), "SourcePaint": base, "BackdropPaint": {"Format": 2, "PaletteIndex": 3, "Alpha": 0.5}}
    if which == "nonblack_backdrop":
        return {"Format": 32, "CompositeMode": "src_in", "SourcePaint": base, "BackdropPaint": {"Format": 2, "PaletteIndex": 0, "Alpha": 0.5}}
    return {"Format": 10, "Glyph": "sq", "Paint": {"Format": 3, "PaletteIndex": 0, "Alpha": 0.5, "VarIndexBase": 0xFFFFFFFF}}


@st.composite
def font_case(draw):
    version = draw(st.sampled_from([1, 1, 1, 1, 0]))
    npal = draw(st.sampled_from([1, 1, 2, 3]))
    outline_names = ["sq", "tri", "ring", "comp"]
    nbase = draw(ints(1, 3))
    paints = OrderedDict()
    advs = {}
    if version == 0:
        for i in range(nbase):
            nl = draw(ints(1, 4))
            paints["c%d" % i] = [(draw(st.sampled_from(outline_names)), draw(st.sampled_from([0, 1, 2, 0xFFFF]))) for _ in range(nl)]
            advs["c%d" % i] = draw(st.sampled_from([1000, 600, 1400, 400]))
        unsupported = None
    else:
        unsupported = draw(st.sampled_from([None] * 28 + UNSUPPORTED))
        for i in range(nbase):
            depth = draw(st.sampled_from([1, 2, 3, 3, 4, 5, 6]))
            paints["c%d" % i] = draw(node(depth, npal, ["c%d" % j for j in range(i)], outline_names))
            advs["c%d" % i] = draw(st.sampled_from([1000, 600, 1400, 400]))
        if unsupported:
            paints["c0"] = plant_unsupported(draw, unsupported)
        elif draw(st.sampled_from([False, False, True])):
            # a colour glyph that is another colour glyph under a transform (how hand-made fonts build variants of a base emoji)
            ref = draw(wrap_transform({"Format": 11, "Glyph": draw(st.sampled_from(list(paints)))}))
            if draw(st.booleans()):
                ref = {"Format": 1, "Layers": [{"Format": 10, "Glyph": draw(st.sampled_from(outline_names)), "Paint": draw(fill(npal))}, ref]}
            k = "c%d" % len(paints)
            paints[k] = ref
            advs[k] = draw(st.sampled_from([1000, 600, 1400, 400]))
    vbmode = draw(st.sampled_from(["region", "region", "square", "offset"]))
    comp_xf = [draw(fl(0.5, 1.2)), 0, 0, draw(fl(0.5, 1.2)), draw(ints(-100, 200)), draw(ints(-100, 200))]
    return {"version": version, "npal": npal, "paints": paints, "advs": advs, "vbmode": vbmode, "comp": comp_xf, "unsupported": unsupported,
            "black_alpha": draw(st.sampled_from([1.0, 1.0, 1.0, 0.5, 0.25]))}


@st.composite
def shared_pool_case(draw):
    """2-4 colour glyphs whose layers take their fills from one small pool of gradients: the same gradient (stops and geometry)
    occurs in several glyphs, at different positions among each glyph's fills - anything the converter remembers from one
    glyph's document while it writes the next one shows up here."""
    npal = draw(st.sampled_from([1, 2]))
    pool = [draw(fill(npal).filter(lambda f: f["Format"] != 2)) for _ in range(draw(ints(2, 3)))]
    outline_names = ["sq", "tri", "ring", "comp"]
    paints = OrderedDict()
    advs = {}
    for i in range(draw(ints(2, 4))):
        layers = []
        for _ in range(draw(ints(1, 3))):
            f = draw(st.sampled_from(pool))
            if draw(st.sampled_from([False, False, False, True])):
                f = draw(wrap_transform(f))
            layers.append({"Format": 10, "Glyph": draw(st.sampled_from(outline_names)), "Paint": f})
        paints["c%d" % i] = layers[0] if len(layers) == 1 else {"Format": 1, "Layers": layers}
        advs["c%d" % i] = draw(st.sampled_from([1000, 600, 1400, 400]))
    vbmode = draw(st.sampled_from(["region", "region", "square", "offset"]))
    return {"version": 1, "npal": npal, "paints": paints, "advs": advs, "vbmode": vbmode, "comp": [1, 0, 0, 1, 0, 0], "unsupported": None}


def fixed_rows():
    """Hand-made fonts judged on every run, one per structure that seeded changes showed to matter: a colour glyph referenced
    under a transform (alone and among layers), two non-commuting transforms above a glyph, a transform above a gradient, one
    gradient shared by glyphs, an opacity group over layers, palette extras, and a COLRv0 font."""
    cl = lambda ext="pad": {"ColorStop": [{"StopOffset": 0.0, "PaletteIndex": 0, "Alpha": 1.0}, {"StopOffset": 0.6, "PaletteIndex": 1, "Alpha": 0.5},
                                          {"StopOffset": 1.0, "PaletteIndex": 2, "Alpha": 1.0}], "Extend": ext}
    lin = {"Format": 4, "ColorLine": cl(), "x0": 100, "y0": 100, "x1": 500, "y1": 250, "x2": 50, "y2": 400}
    rad = {"Format": 6, "ColorLine": cl("reflect"), "x0": 330, "y0": 280, "r0": 20, "x1": 300, "y1": 300, "r1": 260}
    solid = lambda i, a=1.0: {"Format": 2, "PaletteIndex": i, "Alpha": a}
    g = lambda name, paint: {"Format": 10, "Glyph": name, "Paint": paint}
    base = {"version": 1, "npal": 1, "advs": {}, "vbmode": "region", "comp": [0.8, 0, 0, 1.1, 40, -30], "unsupported": None, "black_alpha": 1.0}

    def row(paints, **kw):
        d = dict(base, **kw)
        d["paints"] = OrderedDict(paints)
        d["advs"] = {k: [1000, 600, 1400, 400][i % 4] for i, k in enumerate(d["paints"])}
        return d

    yield row([("c0", g("sq", solid(0))),
               ("c1", {"Format": 12, "Transform": (0.8, 0.2, -0.1, 0.9, 150, -60), "Paint": {"Format": 11, "Glyph": "c0"}}),
               ("c2", {"Format": 1, "Layers": [g("tri", lin), {"Format": 14, "dx": 220, "dy": 140, "Paint": {"Format": 11, "Glyph": "c0"}}]}),
               ("c3", {"Format": 22, "scale": 0.6, "centerX": 400, "centerY": 300, "Paint": {"Format": 11, "Glyph": "c2"}})])
    yield row([("c0", {"Format": 14, "dx": 180, "dy": 90, "Paint": {"Format": 24, "angle": 35.0, "Paint": g("ring", rad)}}),
               ("c1", {"Format": 24, "angle": 35.0, "Paint": {"Format": 16, "scaleX": 1.5, "scaleY": 0.6, "Paint": g("tri", solid(1, 0.5))}}),
               ("c2", g("sq", {"Format": 28, "xSkewAngle": 20.0, "ySkewAngle": -10.0, "Paint": {"Format": 14, "dx": 60, "dy": 30, "Paint": lin}}))], npal=2)
    yield row([("c0", {"Format": 1, "Layers": [g("sq", lin), g("tri", rad)]}),
               ("c1", {"Format": 1, "Layers": [g("comp", rad), g("ring", solid(0xFFFF)), g("tri", lin)]}),
               ("c2", {"Format": 32, "CompositeMode": "src_in", "SourcePaint": {"Format": 1, "Layers": [g("sq", solid(3)), g("tri", solid(2, 0.5))]},
                       "BackdropPaint": {"Format": 2, "PaletteIndex": 3, "Alpha": 0.5}})], npal=3, vbmode="offset", black_alpha=0.5)
    yield row([("c0", [("sq", 0), ("tri", 1), ("ring", 0xFFFF)]), ("c1", [("comp", 2), ("sq", 1)])], version=0, npal=2, vbmode="square")


def enumerate_cases(tier):
    yield from fixed_rows()


def cases(tier):
    return st.one_of(font_case(), font_case(), font_case(), shared_pool_case())


PALETTE = [(1, 0, 0, 1), (0, 0.5, 1, 1), (0, 0.8, 0.2, 0.5), (0, 0, 0, 1)]
PALETTE2 = [(0.5, 0, 0.5, 1), (1, 1, 0, 1), (0.2, 0.2, 0.2, 1), (0, 0, 0, 1)]


def build_case_font(case):
    glyphs = OrderedDict([(".notdef", ([[(50, 0), (50, 700), (450, 700), (450, 0)]], None))])
    if not case.get("no_space"):
        glyphs["space"] = ([], None)
    def colour_glyph(n):
        # "own_outline": the base glyph carries an outline and is its own (first) layer, as in many hand-made COLR fonts
        return OUTLINES["sq"] if case.get("own_outline") and n == "c0" else ([], None)

    pending = list(case["paints"])
    for n, g in OUTLINES.items():
        if case.get("interleave") and pending:
            # colour glyphs scattered among the outline glyphs: their glyph ids are not one consecutive run
            k = pending.pop(0)
            glyphs[k] = colour_glyph(k)
        glyphs[n] = g
    glyphs["comp"] = ([], [("tri", tuple(case["comp"])), ("sq", (1, 0, 0, 1, 300, -150))])
    for n in pending:
        glyphs[n] = colour_glyph(n)
    cmap = {} if case.get("no_space") else {0x20: "space"}
    for i, n in enumerate(case["paints"]):
        cmap[0xE000 + i] = n
    pals = [PALETTE, PALETTE2, list(reversed(PALETTE[:3])) + [PALETTE[3]]][: case["npal"]]
    if case.get("black_alpha", 1.0) != 1.0:
        # the black entry the group-opacity composite uses is itself translucent: the opacity is Alpha x the entry's alpha
        pals = [p[:3] + [(0, 0, 0, case["black_alpha"])] for p in [list(x) for x in pals]]
    paints = {k: _tuplify(p) for k, p in case["paints"].items()}
    adv = dict(case["advs"])
    adv.update({"sq": 1000, "tri": 1000, "ring": 1000, "comp": 1000, ".notdef": 500})
    if not case.get("no_space"):
        adv["space"] = 300
    return make_font(glyphs, cmap, advances=adv, colr=paints, colr_version=case["version"], palettes=pals)


def _tuplify(p):
    if isinstance(p, dict):
        d = {}
        for k, v in p.items():
            if k == "Transform":
                d[k] = tuple(v)
            elif k == "ColorStop":
                d[k] = [x if isinstance(x, dict) else tuple(x) for x in v]
            else:
                d[k] = _tuplify(v)
        return d
    if isinstance(p, list):
        return [_tuplify(x) if isinstance(x, (dict, list)) else (tuple(x) if isinstance(x, list) else x) for x in p]
    return p


def depth_of(p):
    if isinstance(p, dict):
        return 1 + max([depth_of(v) for v in p.values()] + [0])
    if isinstance(p, (list, tuple)):
        return max([depth_of(v) for v in p] + [0])
    return 0


def formats_in(p, acc):
    if isinstance(p, dict):
        if "Format" in p:
            acc.add(p["Format"])
        for v in p.values():
            formats_in(v, acc)
    elif isinstance(p, (list, tuple)):
        for v in p:
            formats_in(v, acc)
    return acc


def judge(case):
    from absl import logging as alog
    from nanoemoji.colr_to_svg import colr_to_svg, glyph_region
    from picosvg.geometric_types import Rect

    v = Verdict()
    try:
        font, _ = build_case_font(case)
    except Exception as e:
        v.discard = "generator:" + type(e).__name__
        v.extra["gen_error:" + str(e)[:50]] = 1
        return v
    v.cls("colr:v%d" % case["version"], "palettes:%d" % case["npal"], "vb:" + case["vbmode"])
    fmts = set()
    for p in case["paints"].values():
        formats_in(p, fmts)
    for f in sorted(fmts):
        v.cls("fmt:%d" % f)
    maxdepth = max(depth_of(p) for p in case["paints"].values()) if case["version"] == 1 else 1
    has_tr = any(12 <= f <= 31 for f in fmts)
    v.nontrivial = maxdepth >= 3 and has_tr and bool(fmts & {4, 6, 11})

    def cb(gn):
        if case["vbmode"] == "region":
            return glyph_region(font, gn)
        if case["vbmode"] == "square":
            return Rect(0, 0, 128, 128)
        return Rect(-20, 10, 300, 150)

    warnings = []
    orig_warning = alog.warning

    def capture(msg, *a, **k):
        warnings.append(str(msg) % a if a else str(msg))

    alog.warning = capture
    try:
        try:
            svgs = colr_to_svg(cb, font)
            err = None
        except Exception as e:
            svgs, err = None, e
    finally:
        alog.warning = orig_warning
    if case["unsupported"]:
        v.cls("unsupported:" + case["unsupported"])
        if err is None and not warnings:
            v.fail("unsupported-converted-silently", case["unsupported"], {"paint": repr(case["paints"]["c0"])[:400]})
        else:
            v.rejected = "unsupported:" + (type(err).__name__ if err else "warning")
        return v
    if err is not None:
        v.fail("conversion-raised", type(err).__name__ + ":" + str(err)[:60], {"error": repr(err)[:400]})
        return v
    rd = ColrReader(font)
    asc, desc = font["OS/2"].sTypoAscender, font["OS/2"].sTypoDescender
    for gn in case["paints"]:
        if gn not in svgs:
            v.fail("glyph-not-converted", "missing", {"glyph": gn})
            continue
        text = svgs[gn].tostring()
        try:
            doc = SVGDoc(text)
            tree = doc.tree()
        except (UnsupportedSVG, BadSVG) as e:
            v.fail("output-not-interpretable", str(e)[:60], {"glyph": gn, "svg": text[:600]})
            continue
        vb = doc.view_box
        want_vb = cb(gn)
        if vb is None or any(abs(a - b) > 1e-6 for a, b in zip(vb, (want_vb.x, want_vb.y, want_vb.w, want_vb.h))):
            v.fail("viewbox", "requested viewBox not used", {"glyph": gn, "got": vb, "want": tuple(want_vb)})
            continue
        adv = font["hmtx"][gn][0]
        m, _ = em_transform(vb, asc, desc, 0, advance=adv)
        impl = map_tree(tree, m)
        try:
            ref = rd.tree(gn)
        except (BadCOLR, UnsupportedPaint) as e:
            raise AssertionError("generator produced a graph the COLR interpreter rejects: %s" % e)
        bud = Budget("otsvg", font["head"].unitsPerEm, 0.0, 1.0, extra_tau=0.5)
        # leaves of the SVG carry no norm of their own: take the COLR side's (same placement)
        res, margin = compare_trees(impl, ref, bud, relax_to="svg")
        v.margin = max(v.margin, margin if not res else 0.0)
        for kind, path, detail in res[:3]:
            v.fail(kind, kind, {"glyph": gn, "path": path, "detail": detail, "svg": text[:1200], "vbmode": case["vbmode"]})
        if case["npal"] > 1 and not res:
            for a, b in zip(leaves(impl), leaves(ref)):
                if isinstance(b.paint, Solid) and b.paint.pidx != 0xFFFF and isinstance(a.paint, Solid) and a.paint.pidx != b.paint.pidx:
                    v.fail("palette-variable", "multi-palette entry not emitted as var(--colorN)", {"glyph": gn, "svg_index": a.paint.pidx, "colr_index": b.paint.pidx})
                    break
    return v


def shrink(case):
    ps = case["paints"]
    names = list(ps)
    for n in names[1:]:
        refd = any(("'Glyph': '%s'" % n) in repr(p) for p in ps.values())
        if not refd:
            q = OrderedDict((k, x) for k, x in ps.items() if k != n)
            yield dict(case, paints=q, advs={k: a for k, a in case["advs"].items() if k != n})

    def simplify(p):
        if isinstance(p, dict):
            if p.get("Format") == 1 and len(p["Layers"]) > 1:
                for i in range(len(p["Layers"])):
                    yield dict(p, Layers=p["Layers"][:i] + p["Layers"][i + 1 :])
            if 12 <= p.get("Format", 0) <= 31:
                yield p["Paint"]
            for k, x in p.items():
                if isinstance(x, (dict, list)):
                    for y in simplify(x):
                        yield dict(p, **{k: y})
        elif isinstance(p, list):
            for i, x in enumerate(p):
                for y in simplify(x):
                    yield p[:i] + [y] + p[i + 1 :]

    for n in names:
        if case["version"] == 1:
            for q in simplify(ps[n]):
                if isinstance(q, dict):
                    yield dict(case, paints=OrderedDict((k, (q if k == n else x)) for k, x in ps.items()))
