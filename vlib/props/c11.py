"""C11 – reordering glyphs leaves every table's meaning intact."""
import io
import os
import re
from collections import OrderedDict

from hypothesis import strategies as st

from .. import build
from ..layoutsem import base_sem, diff_sem, layout_sem, save_reload_check_coverages
from ..minifont import make_cff_font, make_font
from ..verdict import Verdict

ID = "C11"
LEVEL = "exploration"
RULE = (
    "Hypothesis draws a TrueType font of 10-24 glyphs (distinct outlines and advances) with layout tables from (i) feature text generated from "
    "a grammar and compiled by feaLib: single/multiple/alternate/ligature substitution, single positioning formats 1 and 2, pair positioning by "
    "glyph (format 1) and by class (format 2), cursive, mark-to-base / -ligature / -mark, chaining contextual substitution and positioning, reverse "
    "chaining, lookupflag UseMarkFilteringSet, extension lookups, GDEF classes / attach points / ligature carets; (ii) hand-assembled otTables for "
    "what feaLib does not emit: Context{Subst,Pos} formats 1-2 and ChainContext{Subst,Pos} formats 1-2; optionally COLR v0/v1; and a permutation "
    "of the glyph order that keeps .notdef first. Oracle: sem(reload(save(reorder_glyphs(font, perm)))) == sem(font), where sem is a name-keyed "
    "normal form (cmap, hmtx, outlines, colour records, per subtable the relation it denotes, GDEF maps); every stored Coverage strictly increasing "
    "by glyph id and no fontTools 'not sorted' warning. Non-trivial: >= 3 lookup types, the permutation moves >= half of the glyphs and inverts the "
    "relative order inside at least one coverage with a parallel array."
)
ASSUMPTIONS = ["fontTools compiles/decompiles GSUB/GPOS/GDEF faithfully and keeps the stored order of format-1 Coverage on decompile", "TrueType and CFF flavours"]
BUDGET = {"quick": 960, "thorough": 40000}
TIMEOUT = {"quick": 900, "thorough": 7200}


def setup_worker():
    build.init()


def _pick(draw, pool, k_min, k_max):
    k = draw(st.integers(k_min, min(k_max, len(pool))))
    return draw(st.lists(st.sampled_from(pool), min_size=k, max_size=k, unique=True))


@st.composite
def font_case(draw):
    n = draw(st.integers(10, 24))
    names = ["g%d" % i for i in range(n)]
    # roles
    perm0 = draw(st.permutations(names))
    nm = draw(st.integers(3, 4))
    nl = draw(st.integers(2, 3))
    marks, ligs, bases = list(perm0[:nm]), list(perm0[nm : nm + nl]), list(perm0[nm + nl :])
    fea = []
    kinds = []
    v = lambda: draw(st.integers(-90, 90))
    A = lambda: "<anchor %d %d>" % (v(), v())
    use = lambda k: draw(st.integers(0, 9)) < k
    fea.append("table GDEF { GlyphClassDef [%s], [%s], [%s], ; %s %s } GDEF;" % (
        " ".join(bases), " ".join(ligs), " ".join(marks),
        " ".join("Attach %s %d;" % (g, draw(st.integers(0, 2))) for g in _pick(draw, bases, 1, 3)),
        " ".join("LigatureCaretByPos %s %d %d;" % (g, draw(st.integers(10, 200)), draw(st.integers(201, 400))) for g in ligs)))
    top, bot = marks[: len(marks) // 2 + 1], marks[len(marks) // 2 + 1 :] or marks[-1:]
    for m in top:
        fea.append("markClass %s %s @TOP;" % (m, A()))
    for m in bot:
        if m not in top:
            fea.append("markClass %s %s @BOT;" % (m, A()))
    has_bot = any(m not in top for m in bot)
    if use(8):
        pairs = set()
        body = []
        for _ in range(draw(st.integers(2, 7))):
            a, b = draw(st.sampled_from(bases)), draw(st.sampled_from(bases))
            if (a, b) not in pairs:
                pairs.add((a, b))
                body.append("pos %s %s %d;" % (a, b, v() or 5))
        if use(5):
            c1, c2 = _pick(draw, bases, 2, 3), _pick(draw, bases, 2, 3)
            body.append("pos [%s] [%s] %d;" % (" ".join(c1), " ".join(c2), v() or 7))
            kinds.append("PairPos2")
        fea.append("feature kern { %s } kern;" % " ".join(body))
        kinds.append("PairPos1")
    if use(7):
        gs = _pick(draw, bases, 2, 4)
        body = ["pos %s <%d 0 %d 0>;" % (g, v(), v()) for g in gs]
        if use(5):
            body.append("pos [%s] %d;" % (" ".join(_pick(draw, [b for b in bases if b not in gs] or bases, 1, 3)), v() or 3))
        fea.append("feature sing { %s } sing;" % " ".join(body))
        kinds.append("SinglePos")
    if use(6):
        gs = _pick(draw, bases, 2, 4)
        body = ["pos cursive %s %s %s;" % (g, draw(st.sampled_from([A(), "<anchor NULL>"])), draw(st.sampled_from([A(), A(), "<anchor NULL>"]))) for g in gs]
        fea.append("feature curs { %s } curs;" % " ".join(body))
        kinds.append("CursivePos")
    if use(8):
        body = []
        for g in _pick(draw, bases, 2, 4):
            body.append("pos base %s %s mark @TOP%s;" % (g, A(), (" %s mark @BOT" % A()) if has_bot else ""))
        for g in ligs:
            comps = draw(st.integers(1, 2))
            parts = []
            for c in range(comps):
                parts.append("%s mark @TOP%s" % (A(), (" %s mark @BOT" % A()) if has_bot else ""))
            body.append("pos ligature %s %s;" % (g, " ligComponent ".join(parts)))
        fea.append("feature mark { %s } mark;" % " ".join(body))
        kinds += ["MarkBasePos", "MarkLigPos"]
    if use(6):
        body = ["pos mark %s %s mark @TOP;" % (m, A()) for m in _pick(draw, marks, 1, 3)]
        fea.append("feature mkmk { lookupflag UseMarkFilteringSet [%s]; %s } mkmk;" % (" ".join(_pick(draw, marks, 1, 2)), " ".join(body)))
        kinds.append("MarkMarkPos")
    if use(8):
        body = []
        seen = set()
        for lg in ligs:
            comp = _pick(draw, bases, 2, 3)
            if tuple(comp) not in seen:
                seen.add(tuple(comp))
                body.append("sub %s by %s;" % (" ".join(comp), lg))
        # two ligatures sharing the first component: order inside the LigatureSet matters
        a = draw(st.sampled_from(bases))
        for lg in ligs[:2]:
            comp = [a] + _pick(draw, bases, 1, 2)
            if tuple(comp) not in seen:
                seen.add(tuple(comp))
                body.append("sub %s by %s;" % (" ".join(comp), lg))
        fea.append("feature liga { %s } liga;" % " ".join(body))
        kinds.append("LigatureSubst")
    if use(6):
        gs = _pick(draw, bases, 2, 3)
        fea.append("feature salt { %s } salt;" % " ".join("sub %s from [%s];" % (g, " ".join(_pick(draw, bases, 2, 3))) for g in gs))
        kinds.append("AlternateSubst")
    if use(6):
        fea.append("feature mult { %s } mult;" % " ".join("sub %s by %s;" % (g, " ".join(_pick(draw, bases, 2, 3))) for g in ligs))
        kinds.append("MultipleSubst")
    if use(6):
        gs = _pick(draw, bases, 2, 4)
        tg = _pick(draw, bases, len(gs), len(gs))
        ext = " useExtension" if use(4) else ""
        fea.append("lookup SNG%s { %s } SNG; feature ss01 { lookup SNG; } ss01;" % (ext, " ".join("sub %s by %s;" % (a, b) for a, b in zip(gs, tg))))
        kinds.append("SingleSubst" + ("+Ext" if ext else ""))
    if use(7):
        a, b, c = _pick(draw, bases, 3, 3)
        body = ["sub %s' %s' %s by %s;" % (a, b, c, draw(st.sampled_from(ligs)))]
        body.append("sub [%s]' [%s] by %s;" % (" ".join(_pick(draw, bases, 2, 3)), " ".join(_pick(draw, bases, 2, 3)), draw(st.sampled_from(bases))))
        if use(6):
            body.append("pos %s' %d %s;" % (draw(st.sampled_from(bases)), v() or 9, draw(st.sampled_from(bases))))
        fea.append("feature calt { %s } calt;" % " ".join(body))
        kinds.append("ChainContext3")
    if use(5):
        ins = _pick(draw, bases, 2, 3)
        outs = _pick(draw, bases, len(ins), len(ins))
        fea.append("feature rvrs { rsub %s [%s]' %s by [%s]; } rvrs;" % (draw(st.sampled_from(bases)), " ".join(ins), draw(st.sampled_from(bases)), " ".join(outs)))
        kinds.append("ReverseChain")
    hand = []
    for kind in ("ContextSubst1", "ContextSubst2", "ContextSubst3", "ChainContextSubst1", "ChainContextSubst2", "ChainContextSubst3",
                 "ContextPos1", "ContextPos2", "ContextPos3", "ChainContextPos1", "ChainContextPos2", "ChainContextPos3"):
        if use(4):
            first = _pick(draw, bases, 2, 4)
            rules = []
            for g in first:
                rules.append({"first": g, "input": _pick(draw, bases, 1, 2), "back": _pick(draw, bases, 0, 2), "ahead": _pick(draw, bases, 0, 2), "rec": [draw(st.integers(0, 1)), 0]})
            classes = {g: draw(st.integers(1, 3)) for g in _pick(draw, bases, 2, min(6, len(bases)))}
            hand.append({"kind": kind, "rules": rules, "classes": classes})
            kinds.append(kind)
    if draw(st.sampled_from([False, False, True])):
        # the same rules registered under a second feature tag (kern + dist, liga + dlig ...): two lookups with identical content
        cands = [f for f in fea if re.match(r"^feature (\w{4}) \{ .* \} \1;$", f) and "lookup " not in f]
        if cands:
            f = draw(st.sampled_from(cands))
            tag = f[8:12]
            new_tag = {"kern": "dist", "liga": "dlig", "salt": "ss03", "mult": "ccmp", "calt": "clig", "rvrs": "rclt", "curs": "ss04", "mark": "abvm", "mkmk": "blwm"}.get(tag, "ss05")
            fea.append(f.replace("feature %s {" % tag, "feature %s {" % new_tag).replace("} %s;" % tag, "} %s;" % new_tag))
            kinds.append("duplicate-lookup")
    perm = draw(st.permutations(names))
    colr = draw(st.sampled_from([None, None, 0, 1]))
    flavour = draw(st.sampled_from(["ttf", "ttf", "ttf", "cff", "cff2"]))
    return {"n": n, "fea": "\n".join(fea), "hand": hand, "perm": list(perm), "colr": colr, "kinds": kinds, "bases": bases, "flavour": flavour}


def cases(tier):
    return font_case()


# ---------------------------------------------------------------------------------------- hand-assembled subtables
def _cov(glyphs, font):
    from fontTools.otlLib.builder import buildCoverage

    return buildCoverage(sorted(glyphs, key=font.getGlyphID), font.getReverseGlyphMap())


def _classdef(mapping):
    from fontTools.ttLib.tables import otTables as ot

    cd = ot.ClassDef()
    cd.classDefs = dict(mapping)
    return cd


def _rec(sub, seq_index, lookup_index):
    from fontTools.ttLib.tables import otTables as ot

    r = ot.SubstLookupRecord() if sub else ot.PosLookupRecord()
    r.SequenceIndex, r.LookupListIndex = seq_index, lookup_index
    return r


def build_hand(spec, font):
    from fontTools.ttLib.tables import otTables as ot

    kind = spec["kind"]
    sub = "Subst" in kind
    chain = kind.startswith("Chain")
    fmt = int(kind[-1])
    cls = getattr(ot, kind[:-1])
    st_ = cls()
    st_.Format = fmt
    rules = spec["rules"]
    firsts = sorted({r["first"] for r in rules}, key=font.getGlyphID)
    S = "Sub" if sub else "Pos"
    recattr = "SubstLookupRecord" if sub else "PosLookupRecord"
    cntattr = "SubstCount" if sub else "PosCount"
    if fmt == 3:
        r0 = rules[0]
        sets_in = [sorted({r["first"] for r in rules})] + [[g] + [x for x in spec["classes"] if x != g][:2] for g in r0["input"]]
        if chain:
            st_.BacktrackCoverage = [_cov([g] + list(spec["classes"])[:1], font) for g in r0["back"]]
            st_.InputCoverage = [_cov(gs, font) for gs in sets_in]
            st_.LookAheadCoverage = [_cov([g] + list(spec["classes"])[-1:], font) for g in r0["ahead"]]
            st_.BacktrackGlyphCount, st_.InputGlyphCount, st_.LookAheadGlyphCount = len(st_.BacktrackCoverage), len(st_.InputCoverage), len(st_.LookAheadCoverage)
        else:
            st_.Coverage = [_cov(gs, font) for gs in sets_in]
            st_.GlyphCount = len(st_.Coverage)
        setattr(st_, recattr, [_rec(sub, r0["rec"][0] % len(sets_in), 0)])
        setattr(st_, cntattr, 1)
    elif fmt == 1:
        st_.Coverage = _cov(firsts, font)
        sets = []
        for g in firsts:
            rs = getattr(ot, ("Chain" if chain else "") + S + "RuleSet")()
            rl = []
            for r in rules:
                if r["first"] != g:
                    continue
                ru = getattr(ot, ("Chain" if chain else "") + S + "Rule")()
                ru.Input = list(r["input"])
                ru.GlyphCount = len(ru.Input) + 1
                if chain:
                    ru.Backtrack, ru.LookAhead = list(r["back"]), list(r["ahead"])
                    ru.BacktrackGlyphCount, ru.LookAheadGlyphCount, ru.InputGlyphCount = len(ru.Backtrack), len(ru.LookAhead), len(ru.Input) + 1
                setattr(ru, recattr, [_rec(sub, r["rec"][0] % (len(ru.Input) + 1), 0)])
                setattr(ru, cntattr, 1)
                rl.append(ru)
            setattr(rs, ("Chain" if chain else "") + S + "Rule", rl)
            setattr(rs, ("Chain" if chain else "") + S + "RuleCount", len(rl))
            sets.append(rs)
        setattr(st_, ("Chain" if chain else "") + S + "RuleSet", sets)
        setattr(st_, ("Chain" if chain else "") + S + "RuleSetCount", len(sets))
    else:
        classes = dict(spec["classes"])
        for g in firsts:
            classes.setdefault(g, 1)
        st_.Coverage = _cov(firsts, font)
        nclass = max(classes.values()) + 1
        if chain:
            st_.BacktrackClassDef, st_.InputClassDef, st_.LookAheadClassDef = _classdef(classes), _classdef(classes), _classdef(classes)
        else:
            st_.ClassDef = _classdef(classes)
        sets = [None] * nclass
        for ci in sorted({classes[g] for g in firsts}):
            cs = getattr(ot, ("Chain" if chain else "") + S + "ClassSet")()
            rl = []
            for r in rules:
                if classes[r["first"]] != ci:
                    continue
                ru = getattr(ot, ("Chain" if chain else "") + S + "ClassRule")()
                seq = [classes.get(g, 0) for g in r["input"]]
                if chain:
                    ru.Input = seq
                    ru.Backtrack = [classes.get(g, 0) for g in r["back"]]
                    ru.LookAhead = [classes.get(g, 0) for g in r["ahead"]]
                    ru.BacktrackGlyphCount, ru.LookAheadGlyphCount, ru.InputGlyphCount = len(ru.Backtrack), len(ru.LookAhead), len(seq) + 1
                else:
                    ru.Class = seq
                    ru.GlyphCount = len(seq) + 1
                setattr(ru, recattr, [_rec(sub, r["rec"][0] % (len(seq) + 1), 0)])
                setattr(ru, cntattr, 1)
                rl.append(ru)
            setattr(cs, ("Chain" if chain else "") + S + "ClassRule", rl)
            setattr(cs, ("Chain" if chain else "") + S + "ClassRuleCount", len(rl))
            sets[ci] = cs
        setattr(st_, ("Chain" if chain else "") + S + "ClassSet", sets)
        setattr(st_, ("Chain" if chain else "") + S + "ClassSetCount", len(sets))
    lk = ot.Lookup()
    lk.LookupType = {"ContextSubst": 5, "ChainContextSubst": 6, "ContextPos": 7, "ChainContextPos": 8}[kind[:-1]]
    lk.LookupFlag = 0
    lk.SubTable = [st_]
    lk.SubTableCount = 1
    return ("GSUB" if sub else "GPOS"), lk


def build_font_for(case):
    from fontTools.feaLib.builder import addOpenTypeFeaturesFromString
    from fontTools.ttLib import TTFont
    from fontTools.ttLib.tables import otTables as ot

    n = case["n"]
    glyphs = OrderedDict([(".notdef", ([[(0, 0), (0, 10), (10, 10)]], None))])
    for i in range(n):
        glyphs["g%d" % i] = ([[(i, 0), (i, 100 + 3 * i), (120 + 5 * i, 100 + 3 * i)]], None)
    colr = None
    palettes = None
    if case["colr"] is not None:
        b = case["bases"]
        if case["colr"] == 0:
            colr = {b[0]: [(b[1], 0), (b[2], 1)], b[3 % len(b)]: [(b[2], 1)]}
        else:
            colr = {b[0]: {"Format": 1, "Layers": [{"Format": 10, "Glyph": b[1], "Paint": {"Format": 2, "PaletteIndex": 0, "Alpha": 1.0}},
                                                   {"Format": 10, "Glyph": b[2], "Paint": {"Format": 2, "PaletteIndex": 1, "Alpha": 0.5}}]},
                    b[3 % len(b)]: {"Format": 10, "Glyph": b[2], "Paint": {"Format": 2, "PaletteIndex": 1, "Alpha": 1.0}}}
    mk = make_cff_font if case.get("flavour") in ("cff", "cff2") else make_font
    font, _ = mk(glyphs, {0x41 + i: "g%d" % i for i in range(n)}, advances={"g%d" % i: 500 + 7 * i for i in range(n)}, colr=colr,
                 colr_version=case["colr"] or 0, palettes=palettes)
    addOpenTypeFeaturesFromString(font, case["fea"])
    for spec in case["hand"]:
        tag, lk = build_hand(spec, font)
        if tag not in font:
            continue
        t = font[tag].table
        if t.LookupList is None:
            continue
        t.LookupList.Lookup.append(lk)
        t.LookupList.LookupCount = len(t.LookupList.Lookup)
    if case.get("flavour") == "cff2":
        # CFF2 stores no charset of its own: the names of its charstrings are the font's glyph order at the moment they are read
        from fontTools.cffLib.CFFToCFF2 import convertCFFToCFF2

        convertCFFToCFF2(font)
        post = font["post"]  # glyph names then live in post (format 2), as in the cff2 fonts nanoemoji writes with keep_glyph_names
        post.formatType, post.extraNames, post.mapping = 2.0, [], {}
    buf = io.BytesIO()
    font.save(buf)
    return buf.getvalue()


def colr_sem(font):
    if "COLR" not in font:
        return None
    c = font["COLR"]
    if c.version == 0:
        return {g: tuple((l.name, l.colorID) for l in ls) for g, ls in c.ColorLayers.items()}
    t = c.table

    def paint(p):
        d = {"F": p.Format}
        for k in ("Glyph", "PaletteIndex", "Alpha"):
            if hasattr(p, k):
                d[k] = getattr(p, k)
        if hasattr(p, "Paint") and p.Paint is not None:
            d["P"] = paint(p.Paint)
        if p.Format == 1:
            d["L"] = tuple(paint(x) for x in t.LayerList.Paint[p.FirstLayerIndex : p.FirstLayerIndex + p.NumLayers])
        return tuple(sorted(d.items(), key=lambda kv: kv[0]))

    return {r.BaseGlyph: paint(r.Paint) for r in t.BaseGlyphList.BaseGlyphPaintRecord}


def judge(case):
    from fontTools.ttLib import TTFont
    from nanoemoji.reorder_glyphs import reorder_glyphs
    from nanoemoji.util import load_fully

    v = Verdict()
    try:
        data = build_font_for(case)
    except Exception as e:
        v.discard = "generator: %s" % type(e).__name__
        v.extra["gen_error:" + str(e)[:40]] = 1
        return v
    # the facts "before" are read from an instance of their own, so that reading them cannot decode anything in the font that is
    # about to be reordered; that font is obtained the way the callers do it: nanoemoji.util.load_fully on a path, on a lazily
    # opened font, on a default-opened font or on a fully loaded one
    ref = TTFont(io.BytesIO(data), lazy=False)
    before = dict(layout_sem(ref))
    before.update(base_sem(ref))
    before["COLR"] = colr_sem(ref)
    how = (case["perm"].index(min(case["perm"])) + len(case["kinds"]) + len(case["fea"])) % 4  # any function of the case will do
    v.cls("load_fully:" + ["path", "lazy", "default", "eager"][how])
    tmp = None
    if how == 0:
        import tempfile
        from pathlib import Path

        fd, tmp = tempfile.mkstemp(prefix="nanoverif-c11-", suffix=".ttf")
        with os.fdopen(fd, "wb") as fh:
            fh.write(data)
        font = load_fully(Path(tmp))
    else:
        font = load_fully(TTFont(io.BytesIO(data), lazy={1: True, 2: None, 3: False}[how]))
    if tmp:
        os.unlink(tmp)
    unhandled = [k for k, x in before.items() if isinstance(x, tuple) and x and x[0] == "UNHANDLED"]
    if unhandled:
        raise AssertionError("layoutsem cannot express %s" % [before[k] for k in unhandled])
    old = font.getGlyphOrder()
    new = [".notdef"] + case["perm"]
    moved = sum(1 for a, b in zip(old, new) if a != b)
    for k in case["kinds"]:
        v.cls("kind:" + k)
    if case["colr"] is not None:
        v.cls("colr:v%d" % case["colr"])
    v.cls("flavour:" + case.get("flavour", "ttf"))
    try:
        reorder_glyphs(font, new)
        msgs, bad, after_font = save_reload_check_coverages(font)
    except Exception as e:
        v.fail("reorder-raised", type(e).__name__, {"error": repr(e)[:400]})
        return v
    if after_font.getGlyphOrder() != new:
        v.fail("order-not-applied", "glyph order after reload differs from the requested one", {"want": new[:8], "got": after_font.getGlyphOrder()[:8]})
    after = dict(layout_sem(after_font))
    after.update(base_sem(after_font))
    after["COLR"] = colr_sem(after_font)
    # PairValueRecords are looked up by binary search on the second glyph: they must be stored in gid order
    if "GPOS" in after_font and after_font["GPOS"].table.LookupList is not None:
        for li, lk in enumerate(after_font["GPOS"].table.LookupList.Lookup):
            for st_ in lk.SubTable:
                st_ = getattr(st_, "ExtSubTable", st_)
                if type(st_).__name__ == "PairPos" and st_.Format == 1:
                    for ps in st_.PairSet:
                        gids = [after_font.getGlyphID(r.SecondGlyph) for r in ps.PairValueRecord]
                        if any(b <= a for a, b in zip(gids, gids[1:])):
                            v.fail("pairset-unsorted", "PairValueRecords not in glyph id order", {"lookup": li, "gids": gids})
                            break
    d = diff_sem(before, after)
    for key, a, b in d[:3]:
        kind = before.get(eval(key) if key.startswith("(") else key)
        label = key
        if isinstance(kind, tuple) and kind and isinstance(kind[0], str):
            label = kind[0] + (str(kind[1]) if len(kind) > 1 and isinstance(kind[1], int) else "")
        v.fail("meaning-changed", label + (":" + case["flavour"] if case.get("flavour") in ("cff", "cff2") else ""), {"key": key, "before": a, "after": b})
    if bad:
        v.fail("coverage-unsorted", bad[0][0], {"coverage": bad[0][1], "gids": bad[0][2], "n": len(bad)})
    if msgs:
        v.fail("fonttools-not-sorted-warning", "warning", {"messages": msgs[:3]})
    # non-trivial: order inversion inside some coverage that has a parallel array
    inv = False
    gid_old = {g: i for i, g in enumerate(old)}
    gid_new = {g: i for i, g in enumerate(new)}
    for k, x in before.items():
        if isinstance(x, tuple) and x and x[0] in ("PairPos", "CursivePos", "MarkBasePos", "MarkLigPos", "MarkMarkPos", "SinglePos", "ContextSubst", "ContextPos", "ChainContextSubst", "ChainContextPos", "ReverseChainSingleSubst"):
            for part in x[1:]:
                if isinstance(part, dict):
                    ks = [kk[0] if isinstance(kk, tuple) else kk for kk in part if isinstance(kk, (str, tuple))]
                    ks = [g for g in ks if isinstance(g, str)]
                    for a in ks:
                        for b_ in ks:
                            if gid_old[a] < gid_old[b_] and gid_new[a] > gid_new[b_]:
                                inv = True
    v.nontrivial = len(set(case["kinds"])) >= 3 and moved >= len(old) // 2 and inv
    return v


def shrink(case):
    lines = case["fea"].split("\n")
    for i in range(len(lines)):
        if lines[i].startswith("feature") or lines[i].startswith("lookup"):
            yield dict(case, fea="\n".join(lines[:i] + lines[i + 1 :]))
    for i in range(len(case["hand"])):
        yield dict(case, hand=case["hand"][:i] + case["hand"][i + 1 :])
    if case["colr"] is not None:
        yield dict(case, colr=None)
