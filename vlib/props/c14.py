"""C14 – bitmap glyphs carry the right image at the right place."""
import base64
import io
import math
import zlib
from collections import OrderedDict, namedtuple

from hypothesis import strategies as st

from .. import build
from ..gen_cfg import metrics
from ..gen_cp import sequence_set, simple_cps
from ..vecoracle import advance_ok, reach
from ..verdict import Verdict

ID = "C14"
LEVEL = "exploration"
RULE = (
    "Hypothesis draws metrics (upem, ascender, descender, width incl. 0 and > em), a bitmap height = bitmap_resolution in [16,255] (and > 255 "
    "for the rejection clause), 1-5 PNGs of that height with unique pixel content (square; non-square narrow and wide with width 0 = "
    "proportional mode; non-square with a fixed width), codepoint sequences and {cbdt, sbix}; a second case family calls make_cbdt_table on a "
    "font whose colour glyphs are separated by other glyphs (gid gaps). Oracle on the reloaded font: stored image bytes == input bytes for the "
    "glyph reached by shaping; ppem == round(upem*h/(asc-desc)); bitmap box top/bottom within 1 px (2 if nudged into int8) of asc*k / desc*k "
    "with k = ppem/upem; proportional mode: box == [0, advance] px within 1; square: centred in the pixel advance within 1; pixel advance "
    "within 1 px of advance*k or 0.5 px of advance*h/(asc-desc); hmtx advance per the advance rule; CBLC runs consecutive with one record per "
    "glyph; unrepresentable combinations must raise. Non-trivial: non-square, non-integral asc*k, width != em height, or a gid gap."
)
ASSUMPTIONS = ["fontTools decompiles CBDT/CBLC/sbix correctly", "PNG content is opaque to nanoemoji (only the IHDR size is read)"]
BUDGET = {"quick": 1600, "thorough": 64000}
TIMEOUT = {"quick": 900, "thorough": 7200}


def setup_worker():
    build.init()


def make_png(w, h, seed):
    """Minimal valid RGBA PNG with seed-dependent content (no PIL needed in the hot path)."""
    import struct

    def chunk(tag, data):
        c = struct.pack(">I", len(data)) + tag + data
        return c + struct.pack(">I", zlib.crc32(tag + data) & 0xFFFFFFFF)

    row = bytes([0]) + bytes([(seed * 37 + 11) % 256, (seed * 101) % 256, (seed // 3) % 256, 255]) * w
    raw = row * h
    return b"\x89PNG\r\n\x1a\n" + chunk(b"IHDR", struct.pack(">IIBBBBB", w, h, 8, 6, 0, 0, 0)) + chunk(b"IDAT", zlib.compress(raw, 1)) + chunk(b"tEXt", b"seed\x00%d" % seed) + chunk(b"IEND", b"")


@st.composite
def bitmap_case(draw):
    m = draw(metrics(max_upem=4096))
    fmt = draw(st.sampled_from(["cbdt", "sbix"]))
    res = draw(st.one_of(st.integers(16, 128), st.integers(16, 255), st.sampled_from([32, 64, 109, 128, 136, 255]), st.sampled_from([32, 64, 128]), st.sampled_from([256, 300]) if fmt == "cbdt" else st.integers(16, 255)))
    shape = draw(st.sampled_from(["square", "square", "narrow", "wide", "nonsquare_fixed"]))
    n = draw(st.integers(1, 5))
    imgs = []
    for i in range(n):
        if shape == "square":
            w = res
        elif shape == "narrow":
            w = max(4, int(res * draw(st.floats(0.3, 0.95))))
        elif shape == "wide":
            w = int(res * draw(st.floats(1.05, 2.5)))
        else:
            w = max(4, int(res * draw(st.floats(0.4, 1.8))))
        imgs.append([w, res, draw(st.integers(0, 10 ** 6))])
    if shape in ("narrow", "wide"):
        m["width"] = 0
    elif shape == "nonsquare_fixed" and m["width"] == 0:
        m["width"] = m["ascender"] - m["descender"]
    seqs = draw(st.one_of(st.just(None), sequence_set(n)))
    if seqs is None:
        seqs = simple_cps(n)
    cfg = dict(m, color_format=fmt, bitmap_resolution=res, keep_glyph_names=draw(st.booleans()))
    # (bitmap height == bitmap_resolution always: the driver renders every bitmap with `resvg -h <bitmap_resolution>`; a PNG of
    # another height can only come through the Python API, and there the unchanged CBDT code already places it by the configured
    # value - outside the input domain, not judged)
    return {"t": "build", "cfg": cfg, "shape": shape, "images": imgs, "cps": seqs}


@st.composite
def gap_case(draw):
    m = draw(metrics(max_upem=2048))
    res = draw(st.integers(16, 200))
    n = draw(st.integers(2, 8))
    layout = [draw(st.booleans()) for _ in range(n + 4)]  # True = colour glyph
    if sum(layout) < 2:
        layout[1] = layout[-1] = True
    cfg = dict(m, color_format="cbdt", bitmap_resolution=res)
    return {"t": "gaps", "cfg": cfg, "layout": layout, "res": res, "seed": draw(st.integers(0, 10 ** 6))}


def cases(tier):
    return st.one_of(bitmap_case(), bitmap_case(), bitmap_case(), gap_case())


# ------------------------------------------------------------------------------------------ oracle
def py_round(x):
    return int(round(x))


def expected_ppem(cfg, h):
    x = cfg["upem"] * h / (cfg["ascender"] - cfg["descender"])
    return {int(math.floor(x + 0.5)), py_round(x)}


def judge_placement(v, cfg, fmt, w, h, ppem, box, adv_px, adv_fu, shape, where):
    """box = (left, bottom, right, top) in pixels relative to the glyph origin."""
    k = ppem / cfg["upem"]
    kappa = h / (cfg["ascender"] - cfg["descender"])
    left, bottom, right, top = box
    # ppem is itself a rounding (of upem*h/emh): "scaled to that ppem" is accepted in either scale, k = ppem/upem or the
    # bitmap's own exact scale kappa = h/emh (DESIGN C14); the font-unit advance is an integer, i.e. +-0.5 fu = +-0.5k px
    def near(x, fu, tol):
        return abs(x - fu * k) <= tol + 1e-9 or abs(x - fu * kappa) <= tol + 1e-9

    # the bitmap is h px tall, the em box emh*k px: that unavoidable mismatch comes on top of the one-pixel rounding
    emh_ = cfg["ascender"] - cfg["descender"]
    tol_v = (2.0 if (top >= 127 or top <= -128) else 1.0) + min(abs(h - emh_ * k), abs(h - emh_ * kappa) + 0.5, 1.0)
    v.margin = max(v.margin, min(abs(top - cfg["ascender"] * k), abs(top - cfg["ascender"] * kappa)) / tol_v)
    if not near(top, cfg["ascender"], tol_v):
        v.fail("vertical-placement", "top", dict(where, top=top, want_k=cfg["ascender"] * k, want_kappa=cfg["ascender"] * kappa, ppem=ppem, cfg=cfg))
    if not near(bottom, cfg["descender"], tol_v):
        v.fail("vertical-placement", "bottom", dict(where, bottom=bottom, want_k=cfg["descender"] * k, want_kappa=cfg["descender"] * kappa, ppem=ppem, cfg=cfg))
    fu_round = 0.5 * max(k, kappa)
    if adv_px is not None:
        if not near(adv_px, adv_fu, 1.0 + fu_round):
            v.fail("pixel-advance", fmt, dict(where, adv_px=adv_px, adv_fu=adv_fu, k=k, kappa=kappa))
        apx = adv_px
        tol_r = 1.5
    else:
        apx = None
        tol_r = 1.0 + fu_round
    tol_h = 2.0 if (left >= 127) else 1.0
    if shape in ("narrow", "wide"):
        right_ok = abs(right - apx) <= tol_r + 1e-9 if apx is not None else near(right, adv_fu, tol_r)
        if abs(left - 0) > tol_h + 1e-9 or not right_ok:
            v.fail("horizontal-placement", "proportional:" + shape, dict(where, left=left, right=right, adv_px=apx, adv_fu=adv_fu, k=k, kappa=kappa, w=w, h=h))
    elif shape == "square":
        mid = (left + right) / 2.0
        mid_ok = abs(mid - apx / 2.0) <= tol_h + 1e-9 if apx is not None else near(mid, adv_fu / 2.0, tol_h + fu_round / 2)
        if not mid_ok:
            v.fail("horizontal-placement", "square-centring", dict(where, left=left, right=right, adv_px=apx, adv_fu=adv_fu, k=k, kappa=kappa))


def representable(cfg, fmt, imgs):
    """Can the format hold these values at all? (reference, from the table field widths)"""
    emh = cfg["ascender"] - cfg["descender"]
    for w, h, _ in imgs:
        ppems = expected_ppem(cfg, h)
        adv_fu = max(cfg["width"], emh * w / h)
        if fmt == "cbdt":
            if max(w, h) > 255 or min(ppems) > 255 or min(ppems) < 1:
                return False
            if adv_fu * h / emh > 255.5:
                return False
            k = min(ppems) / cfg["upem"]
            if cfg["ascender"] * k > 128.5 or cfg["ascender"] * k < -129.5:
                return False
            if cfg["descender"] * k < -128.5:  # CBLC SbitLineMetrics.descender is an int8
                return False
            if (adv_fu * h / emh - w) / 2 > 128.5:
                return False
        else:
            if min(ppems) < 1 or max(ppems) > 65535:
                return False
    return True


def judge_build(case, v):
    cfg = case["cfg"]
    fmt = cfg["color_format"]
    imgs = case["images"]
    shape = case["shape"]
    v.cls("fmt:" + fmt, "shape:" + shape)
    srcs = [{"png": make_png(w, h, seed), "cps": cps} for (w, h, seed), cps in zip(imgs, case["cps"])]
    emh = cfg["ascender"] - cfg["descender"]
    ok_repr = representable(cfg, fmt, imgs)
    r = build.build_font(cfg, srcs)
    if r.error is not None:
        if not ok_repr:
            v.rejected = "unrepresentable:" + type(r.error).__name__
        else:
            # near the field limits the code may still refuse (rounding of the offsets); accept if some value is within 2 of a limit
            k = min(expected_ppem(cfg, imgs[0][1])) / cfg["upem"]
            near = cfg["ascender"] * k > 125 or cfg["descender"] * k < -125 or max(cfg["width"], emh * max(i[0] / i[1] for i in imgs)) * imgs[0][1] / emh > 252 or min(expected_ppem(cfg, imgs[0][1])) > 253
            if near:
                v.rejected = "near-limit:" + type(r.error).__name__
            else:
                v.fail("spurious-rejection", type(r.error).__name__ + ":" + str(r.error)[:50], {"error": repr(r.error)[:300], "cfg": cfg, "images": imgs})
        return
    font = r.font
    h = imgs[0][1]
    ppems = expected_ppem(cfg, h)
    k_int = (cfg["ascender"] * min(ppems) / cfg["upem"]) % 1
    v.nontrivial = shape != "square" or k_int not in (0.0,) or cfg["width"] != emh
    if not ok_repr:
        v.fail("unrepresentable-accepted", fmt, {"cfg": cfg, "images": imgs})
        return
    if fmt == "cbdt":
        if "CBDT" not in font or "CBLC" not in font:
            v.fail("no-table", "CBDT/CBLC", {})
            return
        strikes = font["CBLC"].strikes
        data = font["CBDT"].strikeData
        seen = {}
        for si, (stk, sd) in enumerate(zip(strikes, data)):
            bst = stk.bitmapSizeTable
            if bst.ppemX not in ppems or bst.ppemY not in ppems:
                v.fail("ppem", "cbdt", {"got": (bst.ppemX, bst.ppemY), "want": sorted(ppems), "cfg": cfg})
            for name, rec in sd.items():
                if name in seen:
                    v.fail("duplicate-bitmap", "glyph in two strikes' data", {"glyph": name})
                seen[name] = (rec, bst.ppemX)
        for i, (s, (w, hh, seed)) in enumerate(zip(srcs, imgs)):
            gname, why = reach(font, s["cps"])
            if gname is None:
                v.fail("unreachable", why, {"source": i})
                continue
            adv = font["hmtx"][gname][0]
            if not advance_ok(cfg, (0, 0, w, hh), adv):
                v.fail("advance", "hmtx", {"source": i, "got": adv, "w": w, "h": hh, "cfg": cfg})
            if gname not in seen:
                v.fail("bitmap-missing", "cbdt", {"source": i, "glyph": gname})
                continue
            rec, ppem = seen[gname]
            if bytes(rec.imageData) != s["png"]:
                v.fail("image-bytes", "cbdt", {"source": i, "glyph": gname})
            mt = rec.metrics
            if (mt.width, mt.height) != (w, hh):
                v.fail("image-size-fields", "cbdt", {"source": i, "got": (mt.width, mt.height), "want": (w, hh)})
            box = (mt.BearingX, mt.BearingY - mt.height, mt.BearingX + mt.width, mt.BearingY)
            judge_placement(v, cfg, fmt, w, hh, ppem, box, mt.Advance, adv, shape, {"source": i})
    else:
        if "sbix" not in font:
            v.fail("no-table", "sbix", {})
            return
        sb = font["sbix"]
        if len(sb.strikes) != 1:
            v.fail("strike-count", "sbix", {"n": len(sb.strikes)})
            return
        ppem, strike = next(iter(sb.strikes.items()))
        if ppem not in ppems or strike.ppem != ppem:
            v.fail("ppem", "sbix", {"got": ppem, "want": sorted(ppems), "cfg": cfg})
        for i, (s, (w, hh, seed)) in enumerate(zip(srcs, imgs)):
            gname, why = reach(font, s["cps"])
            if gname is None:
                v.fail("unreachable", why, {"source": i})
                continue
            adv = font["hmtx"][gname][0]
            if not advance_ok(cfg, (0, 0, w, hh), adv):
                v.fail("advance", "hmtx", {"source": i, "got": adv, "w": w, "h": hh, "cfg": cfg})
            g = strike.glyphs.get(gname)
            if g is None or g.imageData is None:
                v.fail("bitmap-missing", "sbix", {"source": i, "glyph": gname})
                continue
            if bytes(g.imageData) != s["png"] or g.graphicType != "png ":
                if bytes(g.imageData) != s["png"]:
                    v.fail("image-bytes", "sbix", {"source": i, "glyph": gname, "type": g.graphicType})
            box = (g.originOffsetX, g.originOffsetY, g.originOffsetX + w, g.originOffsetY + hh)
            judge_placement(v, cfg, fmt, w, hh, ppem, box, None, adv, shape, {"source": i})


FakeColorGlyph = namedtuple("FakeColorGlyph", "glyph_id bitmap bitmap_filename")


def judge_gaps(case, v):
    from fontTools.ttLib import TTFont
    from nanoemoji.bitmap_tables import make_cbdt_table
    from nanoemoji.png import PNG

    from ..minifont import make_font

    cfg = case["cfg"]
    res = case["res"]
    layout = case["layout"]
    v.cls("gaps")
    glyphs = OrderedDict([(".notdef", ([[(0, 0), (0, 10), (10, 10)]], None))])
    colour = []
    for i, is_c in enumerate(layout):
        name = "g%d" % i
        glyphs[name] = ([], None) if is_c else ([[(0, 0), (0, 50), (50, 50)]], None)
        if is_c:
            colour.append(name)
    emh = cfg["ascender"] - cfg["descender"]
    font, _ = make_font(glyphs, {0xE000 + i: "g%d" % i for i in range(len(layout))}, upem=cfg["upem"], ascender=cfg["ascender"], descender=cfg["descender"],
                        advances={n: max(cfg["width"], emh) for n in glyphs})
    pngs = {n: make_png(res, res, case["seed"] + i) for i, n in enumerate(colour)}
    cgs = [FakeColorGlyph(font.getGlyphID(n), PNG(pngs[n]), n + ".png") for n in colour]
    cgs = list(reversed(cgs)) if case["seed"] % 2 else cgs
    config = build.make_config(cfg)
    ok_repr = representable(cfg, "cbdt", [[res, res, 0]])
    try:
        make_cbdt_table(config, font, cgs)
        buf = io.BytesIO()
        font.save(buf)
        font = TTFont(io.BytesIO(buf.getvalue()), lazy=False)
    except Exception as e:
        if ok_repr:
            k = min(expected_ppem(cfg, res)) / cfg["upem"]
            if cfg["ascender"] * k > 125 or cfg["descender"] * k < -125 or max(cfg["width"], emh) * res / emh > 252 or min(expected_ppem(cfg, res)) > 253:
                v.rejected = "near-limit:" + type(e).__name__
            else:
                v.fail("spurious-rejection", "gaps:" + type(e).__name__, {"error": repr(e)[:300], "cfg": cfg})
        else:
            v.rejected = "unrepresentable:" + type(e).__name__
        return
    runs = []
    for n in colour:
        gid = font.getGlyphID(n)
        if runs and runs[-1][-1] == gid - 1:
            runs[-1].append(gid)
        else:
            runs.append([gid])
    v.nontrivial = len(runs) >= 2
    if len(runs) >= 2:
        v.cls("gaps:%d-runs" % min(len(runs), 4))
    strikes = font["CBLC"].strikes
    data = font["CBDT"].strikeData
    seen = {}
    got_runs = []
    ppems = expected_ppem(cfg, res)
    for stk, sd in zip(strikes, data):
        if stk.bitmapSizeTable.ppemX not in ppems:
            v.fail("ppem", "gaps", {"got": stk.bitmapSizeTable.ppemX, "want": sorted(ppems)})
        for ist in stk.indexSubTables:
            gids = [font.getGlyphID(n) for n in ist.names]
            if gids != list(range(gids[0], gids[0] + len(gids))):
                v.fail("index-subtable-not-consecutive", "gaps", {"gids": gids})
            got_runs.append(gids)
        for name, rec in sd.items():
            if name in seen:
                v.fail("duplicate-bitmap", "gaps", {"glyph": name})
            seen[name] = rec
    if sorted(seen) != sorted(colour):
        v.fail("bitmap-set", "glyphs with bitmaps != colour glyphs", {"got": sorted(seen), "want": sorted(colour)})
    for n in colour:
        if n in seen and bytes(seen[n].imageData) != pngs[n]:
            v.fail("image-bytes", "gaps", {"glyph": n})
    if sorted(map(tuple, got_runs)) != sorted(map(tuple, runs)):
        v.fail("runs", "index subtables do not follow the runs of consecutive gids", {"got": got_runs, "want": runs})


def judge(case):
    v = Verdict()
    if case["t"] == "build":
        judge_build(case, v)
    else:
        judge_gaps(case, v)
    return v


def shrink(case):
    if case["t"] == "build":
        imgs, cps = case["images"], case["cps"]
        for i in range(len(imgs)):
            if len(imgs) > 1:
                yield dict(case, images=imgs[:i] + imgs[i + 1 :], cps=cps[:i] + cps[i + 1 :])
        yield dict(case, cps=[[0xE000 + i] for i in range(len(imgs))])
