"""C10 – what the driver resolves is exactly what the build steps see (file round trips)."""
import io
import os
import re
import shutil
import subprocess
import tempfile
from pathlib import Path

from hypothesis import strategies as st

from .. import build
from ..gen_cp import scalar, sequence, sequence_set
from ..verdict import Verdict

ID = "C10"
LEVEL = "exploration"
RULE = (
    "Five generated round trips and one enumerated table (paths: util.rel(build dir, source) for plain files, files that are symbolic links to a file of another "
    "name and files behind a linked directory, at four build-directory depths, must name the source by its own path). (config) a FontConfig drawn field by field by introspection of FontConfig._fields (strings: printable "
    "Unicode incl. quotes, backslashes, #, =, brackets, tab/newline, non-BMP; floats; Optional None; 1-3 axes; 1-3 masters with dotted/spaced "
    "names and absolute sources) is written with config.write and loaded with config.load: equal field for field; with a subset of fields also "
    "given as absl flags and a subset omitted from the file the result must be flag > file > default; unknown keys must raise. (glyphmap) rows "
    "(svg path, png path|None, glyph name, 0-14 codepoints) with file names containing spaces, commas, quotes, #, unicode are written with "
    "csv_line and parsed back with load_from: equal rows. (rsp) a one-rule build.ninja written through nanoemoji's NinjaWriter copies "
    "$out.rsp; after running ninja, expand_ninja_response_files must return the input names. (names) from_filename(encode(seq)) == seq for the "
    "documented encodings; glyph_name of pairwise distinct sequences are pairwise distinct, <= 63 chars, match [A-Za-z_][A-Za-z0-9_.]* and a "
    "feature file using them compiles with feaLib. (parts) ReusableParts built the way write_part_file / write_combined_part_files build them "
    "reload from JSON to equal version, view box, tolerance, shape sets and donor cache. Non-trivial: config with >= 3 non-default fields incl. "
    "a special string or >= 2 masters; row with a special character; set mixing letter-named and digit-leading names; parts with >= 2 shape sets."
)
ASSUMPTIONS = [
    "third-party toml 0.10.2 mangles C0/C1 control characters (excluded from strings); ninja syntax reserves $ and | and newline in paths (excluded)",
    "absl flags are set and reset inside each case",
]
BUDGET = {"quick": 20000, "thorough": 1000000}
TIMEOUT = {"quick": 900, "thorough": 7200}


def setup_worker():
    build.init()


SPECIAL = " ,'\"#;=()[]{}&!@%^+~`<>?*é😀\\-_.日本"
name_chars = st.one_of(
    st.sampled_from(list("abcXYZ019")),
    st.sampled_from(list(SPECIAL)),
    st.characters(min_codepoint=0x21, max_codepoint=0x2FFF, blacklist_categories=("Cc", "Cs", "Cn", "Zl", "Zp"), blacklist_characters="/\x7f"),
)
def _printable(s):
    # the third-party toml 0.10.2 writer escapes non-printable characters (NBSP, SHY, C0/C1 …) as \xNN, which its own
    # reader rejects or mangles: not nanoemoji's code, excluded
    # (and it leaves a literal backslash followed by "x" unescaped, producing a file it cannot read back)
    return all(ch.isprintable() or ch in "\t\n" for ch in s) and "\\x" not in s and _toml_roundtrips(s)


def _toml_roundtrips(s):
    """The domain is the strings the third-party TOML library itself can carry (checked with that library alone, nanoemoji is
    not involved): toml 0.10.2 reads a string made only of escaped quotes back as the empty string, mangles \\x …"""
    import toml

    try:
        return toml.loads(toml.dumps({"k": s, "l": [s]})) == {"k": s, "l": [s]}
    except Exception:
        return False


file_stem = st.lists(name_chars, min_size=1, max_size=12).map("".join).filter(lambda s: s not in (".", "..") and "\n" not in s and "\r" not in s and _printable(s))

text_value = st.one_of(
    st.sampled_from(["An Emoji Family", "features.fea", "x", "a b", 'q"uote', "back\\slash", "hash # = [br]", "tab\there", "nl\nline", "😀 family", "ünï", "'single'", ""]),
    st.text(st.characters(blacklist_categories=("Cc", "Cs", "Cn"), max_codepoint=0x1FFFF), max_size=12).filter(lambda s: all(ch.isprintable() for ch in s) and "\\x" not in s and _toml_roundtrips(s)),
)


@st.composite
def config_case(draw):
    fmt = draw(st.sampled_from(["glyf", "glyf_colr_0", "glyf_colr_1", "cff_colr_1", "cff2_colr_0", "picosvg", "untouchedsvgz", "cbdt", "sbix"]))
    vals = {
        "family": draw(text_value),
        "output_file": draw(st.sampled_from(["Font.ttf", "My Font.otf", "out/x.ttf", "ü.ttf", "a.b.c.ttf"])),
        "color_format": fmt,
        "upem": draw(st.integers(16, 16384)),
        "width": draw(st.integers(0, 4000)),
        "ascender": draw(st.integers(0, 4000)),
        "descender": -draw(st.integers(0, 2000)),
        "linegap": draw(st.integers(0, 500)),
        "transform": [draw(st.sampled_from([1.0, 0.5, 1.25, 0.9848077, 1e-7, 1e6, -1.0, 0.333333333])) for _ in range(4)] + [draw(st.sampled_from([0.0, 10.0, -0.5, 1234.5678, 1e6])) for _ in range(2)],
        "version_major": draw(st.integers(0, 99)),
        "version_minor": draw(st.integers(0, 999)),
        "reuse_tolerance": draw(st.sampled_from([0.1, -1.0, 0.0, 1e-7, 2.0, 0.05, 1e6])),
        "ignore_reuse_error": draw(st.booleans()),
        "keep_glyph_names": draw(st.booleans()),
        "clip_to_viewbox": draw(st.booleans()),
        "clipbox_quantization": draw(st.one_of(st.none(), st.integers(1, 500))),
        "fea_file": draw(text_value),
        "glyphmap_generator": draw(st.sampled_from(["nanoemoji.write_glyphmap", "my.module", "a b"])),
        "bitmap_resolution": draw(st.integers(1, 512)),
        "use_zopflipng": draw(st.booleans()),
        "use_pngquant": draw(st.booleans()),
        "pngquant_flags": draw(text_value),
        "pretty_print": draw(st.booleans()),
    }
    static = fmt in ("picosvg", "untouchedsvgz", "cbdt", "sbix")
    naxes = 1 if static else draw(st.integers(1, 3))
    tags = ["wght", "wdth", "slnt"][:naxes]
    axes = [[t, draw(st.sampled_from(["Weight", "W i d t h", "Sl.ant", "😀"])), draw(st.sampled_from([400, 100.0, 0, 62.5]))] for t in tags]
    nm = 1 if static else draw(st.integers(1, 3))
    mnames = draw(st.lists(st.sampled_from(["regular", "bold", "Thin.Italic", "with space", "m-1", "ünï"]), min_size=nm, max_size=nm, unique=True))
    srcnames = draw(st.lists(file_stem.map(lambda s: s.replace("*", "_") + ".svg"), min_size=1, max_size=3, unique=True))
    masters = []
    for i, mn in enumerate(mnames):
        pos = {t: (axes[k][2] if i == 0 else draw(st.sampled_from([100, 700.5, 900, -12]))) for k, t in enumerate(tags)}
        masters.append({"name": mn, "style_name": draw(st.sampled_from(["Regular", "Bold Italic", "x"])), "position": pos, "dir": "/abs/m%d" % i, "srcs": srcnames})
    # which fields go into the file / onto the command line
    fields = sorted(vals)
    omit = draw(st.lists(st.sampled_from(fields), max_size=6, unique=True)) if draw(st.booleans()) else []
    flagged = draw(st.lists(st.sampled_from(fields), max_size=5, unique=True)) if draw(st.booleans()) else []
    flagvals = {}
    for f in flagged:
        alt = draw(config_alt_value(f, vals[f]))
        flagvals[f] = alt
    return {"t": "config", "vals": vals, "axes": axes, "masters": masters, "omit": omit, "flags": flagvals, "unknown_key": draw(st.sampled_from([None] * 9 + ["bogus"]))}


def config_alt_value(field, cur):
    if isinstance(cur, bool):
        return st.just(not cur)
    if field == "color_format":
        return st.sampled_from(["glyf_colr_1", "picosvg", "cbdt"])
    if field == "transform":
        return st.just([2.0, 0.0, 0.0, 2.0, 5.0, -5.0])
    if field == "clipbox_quantization":
        return st.integers(1, 99)
    if field == "descender":
        return st.integers(-999, 0)
    if isinstance(cur, int):
        return st.integers(0, 999)
    if isinstance(cur, float):
        return st.sampled_from([0.25, 3.0, -1.0])
    if field == "output_file":
        return st.sampled_from(["Flag.ttf", "flag name.otf"])
    return st.sampled_from(["from flag", "fl\"ag", "ƒlag"])


@st.composite
def glyphmap_case(draw):
    rows = []
    for _ in range(draw(st.integers(1, 4))):
        stem = draw(file_stem)
        prefix = draw(st.sampled_from(["picosvg/clipped/", "../src/", "/abs/dir with space/", "bitmap/", "build dir/picosvg/"]))
        svg = prefix + stem + ".svg"
        png = draw(st.sampled_from([None, "bitmap/" + stem + ".png"]))
        if draw(st.integers(0, 9)) == 9:
            svg, png = None, "bitmap/" + stem + ".png"
        cps = draw(st.one_of(st.just([]), sequence()))
        gname = draw(st.one_of(st.just(None), file_stem.map(lambda s: "gl_" + s.strip())))
        rows.append({"svg": svg, "png": png, "cps": cps, "name": gname})
    return {"t": "glyphmap", "rows": rows}


@st.composite
def rsp_case(draw):
    names = draw(st.lists(file_stem.filter(lambda s: "$" not in s and "|" not in s and "\t" not in s and s == s.strip() and not s.startswith("-")), min_size=1, max_size=4, unique=True))
    return {"t": "rsp", "names": ["in/" + n + ".svg" for n in names]}


@st.composite
def names_case(draw):
    n = draw(st.integers(1, 8))
    seqs = draw(sequence_set(n))
    if draw(st.integers(0, 5)) == 0:
        # one-hex-digit codepoints (U+0001..U+000F): the shortest spelling a file name can carry
        small = [draw(st.integers(1, 15))] + ([0x200D, draw(st.integers(1, 15))] if draw(st.booleans()) else [])
        if small not in seqs:
            seqs = seqs + [small]
    style = draw(st.sampled_from(["emoji_u", "plain-", "plain_"]))
    upper = draw(st.booleans())
    pad = draw(st.booleans())
    return {"t": "names", "seqs": seqs, "style": style, "upper": upper, "pad": pad}


@st.composite
def parts_case(draw):
    from ..gen_svg import cmds_to_d, transform_cmds, unit_shape
    from ..geom import achain, rotate, scale, translate

    wh = draw(st.sampled_from([24, 100, 128, 1000]))
    nsrc = draw(st.integers(1, 3))
    lib = [draw(unit_shape(("polygon", "cubic", "rect", "ellipse"))) for _ in range(draw(st.integers(1, 3)))]
    srcs = []
    for _ in range(nsrc):
        vbw = draw(st.sampled_from([wh, 24, 128, 36.5]))
        ds = []
        for _ in range(draw(st.integers(1, 4))):
            u = lib[draw(st.integers(0, len(lib) - 1))]
            m = achain(scale(draw(st.floats(0.05, 0.2)) * vbw), rotate(draw(st.sampled_from([0.0, 0.0, 90.0, 33.0]))), translate(draw(st.floats(0.2, 0.8)) * vbw, draw(st.floats(0.2, 0.8)) * vbw))
            ds.append(cmds_to_d(transform_cmds(u, m), 3))
        srcs.append({"vb": vbw, "paths": ds})
    return {"t": "parts", "wh": wh, "tolerance": draw(st.sampled_from([0.1, 0.1, -1, 0.5])), "sources": srcs, "donors": draw(st.booleans()), "combine": draw(st.booleans())}


def cases(tier):
    return st.one_of(config_case(), config_case(), glyphmap_case(), glyphmap_case(), names_case(), names_case(), parts_case(), rsp_case() if tier == "thorough" else names_case())


def enumerate_cases(tier):
    # a fixed number of real-ninja response-file round trips in every tier (slow: ~30 ms each)
    import random

    rnd = random.Random(12345)
    alpha = list("abcXYZ019 ,'\"#;=()[]{}&!@%^+~`<>?*é😀\\-_.")
    for i in range(48 if tier == "quick" else 600):
        names = set()
        for _ in range(rnd.randint(1, 4)):
            n = "".join(rnd.choice(alpha) for _ in range(rnd.randint(1, 12))).strip()
            if n and n not in (".", "..") and not n.startswith("-"):
                names.add("in/" + n + ".svg")
        if names:
            yield {"t": "rsp", "names": sorted(names)}
    # paths as the driver hands them to the steps (relative to the build directory): plain files, files that are symbolic links
    # to a file of another name, files reached through a linked directory; build directories at several depths
    for i, bd in enumerate(["build", "out/b", "deep/er/build", "../elsewhere/b"]):
        for kind in ("plain", "file-link", "dir-link"):
            yield {"t": "rel", "build_dir": bd, "kind": kind, "name": ["emoji_u1f31f.svg", "1F600-200D-1F601.svg", "odd name é.svg"][i % 3]}


def judge_rel(case, v):
    """util.rel(build_dir, source) is what ninja.rel_build writes into build.ninja and the glyph map: joined to the build directory
    it must name the source by its own path - a source's *name* carries its codepoints, so a link must not be replaced by its
    target."""
    import tempfile
    from pathlib import Path

    from nanoemoji import util

    root = tempfile.mkdtemp(prefix="nanoverif-c10rel-")
    try:
        proj = os.path.join(root, "proj")
        os.makedirs(os.path.join(proj, "art"))
        os.makedirs(os.path.join(proj, "src"))
        target = os.path.join(proj, "art", "blue_square.svg")
        with open(target, "w") as fh:
            fh.write("<svg/>")
        name = case["name"]
        if case["kind"] == "plain":
            src = os.path.join(proj, "src", name)
            shutil.copy(target, src)
        elif case["kind"] == "file-link":
            src = os.path.join(proj, "src", name)
            os.symlink(os.path.join("..", "art", "blue_square.svg"), src)
        else:
            os.symlink("art", os.path.join(proj, "linked"))
            shutil.copy(target, os.path.join(proj, "art", name))
            src = os.path.join(proj, "linked", name)
        bd = os.path.normpath(os.path.join(proj, case["build_dir"]))
        os.makedirs(bd, exist_ok=True)
        v.cls("rel:" + case["kind"])
        v.nontrivial = case["kind"] != "plain"
        try:
            r = util.rel(Path(bd), Path(src))
        except Exception as e:
            v.fail("rel-raised", type(e).__name__, {"error": repr(e), "case": case})
            return
        joined = os.path.normpath(os.path.join(bd, str(r)))
        # the same file under the same *name* (directories on the way may be spelled differently, e.g. a resolved directory link)
        if not os.path.exists(joined) or not os.path.samefile(joined, src):
            v.fail("path-changed", case["kind"] + ":other-file", {"build_dir": bd, "source": src, "rel": str(r), "names": joined})
        elif os.path.basename(joined) != os.path.basename(src):
            v.fail("path-changed", case["kind"] + ":other-name", {"build_dir": bd, "source": src, "rel": str(r), "names": joined})
        elif os.path.isabs(str(r)):
            v.fail("path-not-relative", case["kind"], {"rel": str(r)})
    finally:
        shutil.rmtree(root, ignore_errors=True)


# --------------------------------------------------------------------------------------------- judges
def judge_config(case, v):
    from absl import flags
    from nanoemoji import config
    from picosvg.svg_transform import Affine2D

    FLAGS = flags.FLAGS
    vals = dict(case["vals"])
    default = config.FontConfig()
    known = set(config.FontConfig._fields)
    missing = known - set(vals) - {"axes", "masters", "source_names"}
    if missing:
        # a field added to FontConfig later: generated from its default's type so that the round trip still covers it
        for f in missing:
            vals[f] = getattr(default, f)
    cfgkw = dict(vals)
    cfgkw["transform"] = Affine2D(*vals["transform"]) if not isinstance(vals["transform"], Affine2D) else vals["transform"]
    axes = tuple(config.Axis(t, n, d) for t, n, d in case["axes"])
    masters = []
    stem = Path(vals["output_file"]).stem
    for m in case["masters"]:
        srcs = tuple(sorted(Path(m["dir"]) / s for s in m["srcs"]))
        masters.append(config.MasterConfig(m["name"], m["style_name"], ".".join((stem, m["name"], "ufo")), tuple(sorted(config.AxisPosition(k, p) for k, p in m["position"].items())), srcs))
    full = config.FontConfig(axes=axes, masters=tuple(masters), source_names=tuple(sorted(case["masters"][0]["srcs"])), **cfgkw)
    nondefault = [f for f in vals if getattr(full, f) != getattr(default, f)]
    special = any(isinstance(vals[f], str) and re.search(r"[^A-Za-z0-9 ._/-]", vals[f]) for f in vals)
    v.nontrivial = (len(nondefault) >= 3 and special) or len(masters) >= 2
    v.cls("config:masters=%d" % len(masters), "config:flags=%d" % len(case["flags"]), "config:omitted=%d" % len(case["omit"]))
    d = tempfile.mkdtemp(prefix="nanoverif-c10-")
    try:
        path = Path(d) / "c.toml"
        try:
            config.write(path, full)
        except Exception as e:
            v.fail("config-write-raised", type(e).__name__, {"error": repr(e)[:300], "vals": vals})
            return
        text = path.read_text()
        if case["omit"] or case["unknown_key"]:
            import toml

            tdict = toml.loads(text)
            for f in case["omit"]:
                tdict.pop(f, None)
            if case["unknown_key"]:
                tdict[case["unknown_key"]] = 1
            path.write_text(toml.dumps(tdict))
        expected = full
        for f in case["omit"]:
            expected = expected._replace(**{f: getattr(default, f)})
        set_flags = []
        try:
            for f, val in case["flags"].items():
                fv = val
                if f == "transform":
                    fv = Affine2D(*val).tostring()
                    expected = expected._replace(transform=Affine2D(*val))
                else:
                    expected = expected._replace(**{f: val})
                setattr(FLAGS, f, fv)
                set_flags.append(f)
            if "output_file" in case["flags"] or "output_file" in case["omit"]:
                stem2 = Path(expected.output_file).stem
                expected = expected._replace(masters=tuple(m._replace(output_ufo=".".join((stem2, m.name, "ufo"))) for m in expected.masters))
            try:
                loaded = config.load(path)
                err = None
            except Exception as e:
                loaded, err = None, e
        finally:
            for f in set_flags:
                setattr(FLAGS, f, None)
        if case["unknown_key"]:
            if err is None:
                v.fail("unknown-key-accepted", case["unknown_key"], {})
            else:
                v.rejected = "unknown key:" + type(err).__name__
            return
        valid = True
        try:
            expected.validate()
        except Exception:
            valid = False
        if err is not None:
            if not valid:
                v.rejected = "invalid config:" + type(err).__name__
                return
            v.fail("config-load-raised", type(err).__name__ + ":" + str(err)[:50], {"error": repr(err)[:300], "toml": text[:1500]})
            return
        if not valid:
            v.fail("invalid-config-accepted", "validate() would raise", {"vals": vals})
            return
        for f in config.FontConfig._fields:
            a, b = getattr(loaded, f), getattr(expected, f)
            same = a == b
            if f == "transform":
                same = all(abs(x - y) <= 1e-12 * max(1.0, abs(y)) for x, y in zip(tuple(a), tuple(b)))
            if not same:
                how = "flag" if f in case["flags"] else ("default" if f in case["omit"] else "file")
                v.fail("config-field-changed", "%s:%s" % (f, how), {"field": f, "loaded": repr(a)[:300], "expected": repr(b)[:300], "source": how})
    finally:
        shutil.rmtree(d, ignore_errors=True)


def judge_glyphmap(case, v):
    from nanoemoji.glyph import glyph_name
    from nanoemoji.glyphmap import GlyphMapping, load_from

    rows = []
    special = False
    for r in case["rows"]:
        cps = tuple(r["cps"])
        name = r["name"] or (glyph_name(cps) if cps else "glyph_without_cps")
        rows.append(GlyphMapping(Path(r["svg"]) if r["svg"] else None, Path(r["png"]) if r["png"] else None, cps, name))
        if re.search(r"[ ,'\"#\\]|[^\x00-\x7f]", (r["svg"] or "") + (r["png"] or "") + name):
            special = True
    v.nontrivial = special
    text = "\n".join(r.csv_line() for r in rows) + "\n"
    try:
        back = load_from(io.StringIO(text))
    except Exception as e:
        v.fail("glyphmap-parse-raised", type(e).__name__, {"error": repr(e)[:300], "text": text[:600]})
        return
    if tuple(rows) != tuple(back):
        for a, b in zip(rows, back):
            if a != b:
                v.fail("glyphmap-row-changed", "row", {"written": repr(a)[:400], "parsed": repr(b)[:400], "line": a.csv_line()[:300]})
                return
        v.fail("glyphmap-row-count", "count", {"written": len(rows), "parsed": len(back)})


def judge_rsp(case, v):
    from nanoemoji.ninja import NinjaWriter
    from nanoemoji.util import expand_ninja_response_files

    names = case["names"]
    v.nontrivial = any(re.search(r"[ ,'\"#\\&;()<>*?!`~]|[^\x00-\x7f]", n) for n in names)
    if any(ch in n for n in names for ch in "$|\n\r\t"):
        v.discard = "ninja-reserved character"
        return
    ws = tempfile.mkdtemp(prefix="nanoverif-c10-")
    try:
        os.makedirs(ws + "/in")
        for n in names:
            with open(os.path.join(ws, n), "w") as f:
                f.write("x")
        with open(ws + "/build.ninja", "w") as f:
            nw = NinjaWriter(f)
            nw.rule("copyrsp", "cp $out.rsp $out.copy && touch $out", rspfile="$out.rsp", rspfile_content="$in")
            nw.build("out.txt", "copyrsp", [Path(n) for n in names])
        r = subprocess.run(["ninja", "-C", ws], capture_output=True)
        if r.returncode != 0:
            v.fail("ninja-rejects-build-file", "ninja", {"names": names, "out": r.stdout.decode(errors="replace")[-300:]})
            return
        got = expand_ninja_response_files(["@" + ws + "/out.txt.copy"])
        if got != names:
            v.fail("rsp-names-changed", "rsp", {"written": names, "read": got})
    finally:
        shutil.rmtree(ws, ignore_errors=True)


_NAME_RE = re.compile(r"[A-Za-z_][A-Za-z0-9_.]*\Z")


def judge_names(case, v):
    from nanoemoji import codepoints, features
    from nanoemoji.glyph import glyph_name

    seqs = [tuple(s) for s in case["seqs"]]
    # file name encodings
    for s in seqs:
        hx = [("%X" if case["upper"] else "%x") % c for c in s]
        if case["pad"]:
            hx = [h.zfill(4) for h in hx]
        fn = {"emoji_u": "emoji_u" + "_".join(hx), "plain-": "-".join(hx), "plain_": "_".join(hx)}[case["style"]] + ".svg"
        try:
            got = codepoints.from_filename(fn)
        except Exception as e:
            v.fail("from-filename-raised", type(e).__name__, {"file": fn, "error": repr(e)[:200]})
            continue
        if tuple(got) != s:
            v.fail("from-filename-wrong", case["style"], {"file": fn, "want": s, "got": got})
    names = [glyph_name(s) for s in seqs]
    letter = any(n[0].isalpha() and not n.startswith("g_") for n in names)
    digit = any(n.startswith("g_") for n in names)
    v.nontrivial = letter and digit
    if len(set(names)) != len(names):
        dup = [(s, n) for s, n in zip(seqs, names) if names.count(n) > 1]
        v.fail("glyph-name-collision", "distinct sequences, same name", {"pairs": dup[:4]})
    for s, n in zip(seqs, names):
        if len(n) > 63:
            v.fail("glyph-name-too-long", "len>63", {"seq": s, "name": n, "len": len(n)})
        if not _NAME_RE.match(n):
            v.fail("glyph-name-illegal", "charset", {"seq": s, "name": n})
    # the generated feature file must compile with these names
    if any(len(s) > 1 for s in seqs) and not v.failures:
        from fontTools.feaLib.parser import Parser

        fea = features.generate_fea(seqs)
        all_names = set(names) | {glyph_name((c,)) for s in seqs for c in s}
        try:
            Parser(io.StringIO(fea), glyphNames=all_names).parse()
        except Exception as e:
            v.fail("fea-does-not-parse", type(e).__name__, {"error": str(e)[:300], "fea": fea[:600]})


def judge_parts(case, v):
    from nanoemoji.parts import ReusableParts
    from picosvg.geometric_types import Rect
    from picosvg.svg import SVG

    tol = case["tolerance"]
    try:
        individual = []
        for s in case["sources"]:
            parts = ReusableParts(view_box=Rect(0, 0, case["wh"], case["wh"]), reuse_tolerance=tol)
            body = "".join('<path d="%s"/>' % d for d in s["paths"])
            svg = SVG.fromstring('<svg xmlns="http://www.w3.org/2000/svg" viewBox="0 0 %g %g"><defs/>%s</svg>' % (s["vb"], s["vb"], body))
            parts.add(svg)
            if case["donors"]:
                parts.compute_donors()
            individual.append(parts)
        subjects = list(individual)
        if case["combine"]:
            reloaded = [ReusableParts.from_json(p.to_json()) for p in individual]
            combined = ReusableParts()
            combined.version = reloaded[0].version
            combined.reuse_tolerance = reloaded[0].reuse_tolerance
            combined.view_box = reloaded[0].view_box
            for p in reloaded:
                combined.add(p)
            combined.compute_donors()
            subjects.append(combined)
    except Exception as e:
        # the part-file steps run on every CLI build: a crash here is a crash of the build
        v.fail("parts-construction-raised", type(e).__name__ + ":tol=%s" % tol, {"error": repr(e)[:300], "case": case})
        return
    v.nontrivial = any(len(p.shape_sets) >= 2 for p in subjects)
    for p in subjects:
        try:
            q = ReusableParts.from_json(p.to_json())
        except Exception as e:
            v.fail("parts-reload-raised", type(e).__name__, {"error": repr(e)[:300], "json": p.to_json()[:600]})
            continue
        if q.version != p.version or tuple(q.view_box) != tuple(p.view_box) or q.reuse_tolerance != p.reuse_tolerance:
            v.fail("parts-header-changed", "header", {"a": (p.version, tuple(p.view_box), p.reuse_tolerance), "b": (q.version, tuple(q.view_box), q.reuse_tolerance)})
        if {k: set(s) for k, s in p.shape_sets.items()} != {k: set(s) for k, s in q.shape_sets.items()}:
            v.fail("parts-shapes-changed", "shape_sets", {"a": len(p.shape_sets), "b": len(q.shape_sets)})
        if dict(p._donor_cache) != dict(q._donor_cache):
            v.fail("parts-donors-changed", "donor cache", {"a": repr(dict(p._donor_cache))[:300], "b": repr(dict(q._donor_cache))[:300]})


def judge(case):
    v = Verdict()
    t = case["t"]
    v.cls("kind:" + t)
    {"config": judge_config, "glyphmap": judge_glyphmap, "rsp": judge_rsp, "names": judge_names, "parts": judge_parts, "rel": judge_rel}[t](case, v)
    return v


def shrink(case):
    if case["t"] == "glyphmap":
        rows = case["rows"]
        for i in range(len(rows)):
            if len(rows) > 1:
                yield dict(case, rows=rows[:i] + rows[i + 1 :])
    elif case["t"] == "names":
        seqs = case["seqs"]
        for i in range(len(seqs)):
            if len(seqs) > 1:
                yield dict(case, seqs=seqs[:i] + seqs[i + 1 :])
    elif case["t"] == "config":
        if case["flags"]:
            for f in list(case["flags"]):
                yield dict(case, flags={k: x for k, x in case["flags"].items() if k != f})
        for f in list(case["omit"]):
            yield dict(case, omit=[k for k in case["omit"] if k != f])
