"""C19 – congruent copies of a shape are stored once."""
import math
import re

from hypothesis import strategies as st

from .. import build
from ..display import leaves
from ..gen_cfg import font_config
from ..gen_svg import (
    cmds_bbox,
    font_palette,
    model_paths,
    paint_st,
    transform_cmds,
    unit_shape,
    view_box,
)
from ..geom import I, achain, amul, rotate, scale, translate
from ..ref_colr import BadCOLR, ColrReader, UnsupportedPaint
from ..ref_svg import BadSVG, UnsupportedSVG
from ..vecoracle import impl_tree, reach, to_build_sources
from ..verdict import Verdict
from . import c01

ID = "C19"
LEVEL = "exploration"
RULE = (
    "A base shape (polygon, cubic or quadratic blob, ellipse, ring) and 1-4 copies of it under drawn isometries (translation inside the em, "
    "rotation by any angle, reflection about any axis), emitted in direct normal form with >= 6 decimals, spread over 1-3 glyphs that share "
    "one viewBox or, in a third of the multi-glyph cases, viewBoxes of the same height with different origins and widths (>= 24 units; a quarter of the cases 4-6 glyphs with 1-2 further shapes that recur in 2-3 glyphs each, so that the groups of glyphs "
    "sharing something overlap and chain), mixed with unrelated shapes, with solid or gradient fills, reuse_tolerance in {0.1, 0.5, 2} and formats "
    "{glyf_colr_0, glyf_colr_1, picosvg}. Oracle (read back from the binary): every member of the family draws the same stored outline "
    "(COLR: one outline glyph after resolving COLRv0 composite layer glyphs; picosvg: one <path>, all other members <use> it); with "
    "tolerance -1 the same input must store one outline per member. One case in eight uses an em of 8192/16384 units with an em height up to "
    "1.85 upem, so that copies lie 16 000-30 000 units apart; when the affine between some ordered pair of members, computed from the generator's own "
    "matrices, has an entry >= 32767 (the 16.16 limit of the statement's exception) sharing is not demanded, but the build with reuse on must still "
    "succeed whenever the build with reuse off does. Non-trivial: a copy rotated by an angle not within 1 degree of a "
    "multiple of 90 degrees, or mirrored."
)
ASSUMPTIONS = ["fontTools decompiles COLR/glyf/SVG correctly", "copies are exact to double precision before printing with 6 decimals"]
BUDGET = {"quick": 960, "thorough": 40000}
TIMEOUT = {"quick": 900, "thorough": 7200}
FORMATS = ["glyf_colr_0", "glyf_colr_1", "picosvg"]


def setup_worker():
    build.init()


@st.composite
def family_case(draw, tier):
    cfg = draw(font_config(FORMATS, transforms=False, max_upem=4096))
    chained = draw(st.integers(0, 3)) == 0
    if chained and draw(st.booleans()):
        cfg["color_format"] = "picosvg"  # documents are formed per group of glyphs there
    huge = draw(st.integers(0, 7)) == 0
    if huge:
        # a huge em: copies end up 16 000 - 30 000 font units apart, the upper half of what a 16.16 translation can hold
        up = draw(st.sampled_from([8192, 16384]))
        asc = int(up * draw(st.floats(0.8, 1.0)))
        desc = -int(up * draw(st.floats(0.0, 0.85)))
        cfg.update(upem=up, ascender=asc, descender=desc, width=draw(st.sampled_from([0, asc - desc])), linegap=0)
    cfg["reuse_tolerance"] = draw(st.sampled_from([0.1, 0.1, 0.5, 2.0]))
    if cfg["upem"] < 256:  # keep the artwork well above the tolerance in font units
        for k in ("upem", "ascender", "descender", "width", "linegap"):
            cfg[k] *= 16
    palette = {}  # no palette variables: in COLRv0 one variable used with two opacities is a (legitimate) error
    vb = draw(view_box())
    unit = draw(unit_shape(("polygon", "cubic", "quad", "ellipse", "ring")))
    size = draw(st.floats(0.06, 0.2)) * min(vb[2], vb[3])
    # by construction: the family is well above the tolerance in the units the format compares in
    unit_scale = 1.0 if cfg["color_format"].startswith("picosvg") else (cfg["ascender"] - cfg["descender"]) / vb[3]
    need = 45 * cfg["reuse_tolerance"] / unit_scale / 0.6  # unit shapes span >= ~0.6 of their nominal size
    if size < need:
        if need <= 0.3 * min(vb[2], vb[3]):
            size = need
        else:
            cfg["reuse_tolerance"] = 0.1
            size = max(size, min(0.3 * min(vb[2], vb[3]), 45 * 0.1 / unit_scale / 0.6))
    nglyph = draw(st.integers(4, 6)) if chained else draw(st.integers(1, 3))
    ncopies = draw(st.integers(2, 4)) if chained else draw(st.integers(1, 4))
    members = []
    for k in range(ncopies + 1):
        kind = "identity" if k == 0 else draw(st.sampled_from(["translate", "rotate", "rotate", "mirror", "mirror"]))
        ang = 0.0
        lin = I
        if kind == "rotate":
            ang = draw(st.floats(-180, 180))
            lin = rotate(ang)
        elif kind == "mirror":
            ang = draw(st.floats(-180, 180))
            lin = amul(rotate(ang), (-1.0, 0.0, 0.0, 1.0, 0.0, 0.0))
        lo, hi = (0.06, 0.94) if huge else (0.2, 0.8)  # huge em: both sides of the 16.16 limit are reached
        cx = vb[0] + draw(st.floats(lo, hi)) * vb[2]
        cy = vb[1] + draw(st.floats(lo, hi)) * vb[3]
        m = achain(scale(size), lin, translate(cx, cy))
        members.append({"kind": kind, "angle": ang, "m": [float(x) for x in m], "cmds": transform_cmds(unit, m), "glyph": draw(st.integers(0, nglyph - 1)) if k else 0})
    # chained sharing: 1-2 further shapes, each recurring (translated) in 2-3 glyphs, so that which glyphs must live in one
    # OT-SVG document / share outlines is the transitive closure of several overlapping groups
    links = []
    if chained:
        for li in range(draw(st.integers(1, 2))):
            lshape = draw(unit_shape(("polygon", "rect", "cubic")))
            ls = draw(st.floats(0.06, 0.15)) * min(vb[2], vb[3])
            where = draw(st.lists(st.integers(0, nglyph - 1), min_size=2, max_size=3, unique=True))
            fam_glyphs = sorted({mem["glyph"] for mem in members})
            outside = [g for g in range(nglyph) if g not in fam_glyphs and g < fam_glyphs[-1]]
            if li == 0 and outside and len(fam_glyphs) >= 2 and draw(st.booleans()):
                # the linking shape is first seen in a glyph outside the family and then again in the family's last glyph: two
                # groups that formed independently are joined late, through members that are not the groups' first glyphs
                where = [draw(st.sampled_from(outside)), fam_glyphs[-1]]
            links.append((lshape, ls, where, li))
    def foreign(shape):
        """An unrelated shape must not be an affine image of the family's (all triangles are, all 3-arc blobs are ...): the
        reuse machinery would legitimately pick it as the donor and the statement's 'copies of a shape' would not apply."""
        from picosvg.svg_reuse import normalize
        from picosvg.svg_types import SVGPath

        from ..gen_svg import cmds_to_d

        try:
            if normalize(SVGPath(d=cmds_to_d(shape)), 0.01).d != normalize(SVGPath(d=cmds_to_d(unit)), 0.01).d:
                return shape
        except Exception:
            pass
        k = 0.5522847498  # an ellipse (or, for an elliptic family, a rectangle) is never an affine image of the family
        if any(c[0] == "C" for c in unit) and len(unit) == 6:
            return [["M", -0.7, -0.4], ["L", 0.7, -0.4], ["L", 0.7, 0.4], ["L", -0.7, 0.4], ["Z"]]
        return [["M", 0.8, 0], ["C", 0.8, 0.5 * k, 0.8 * k, 0.5, 0, 0.5], ["C", -0.8 * k, 0.5, -0.8, 0.5 * k, -0.8, 0], ["C", -0.8, -0.5 * k, -0.8 * k, -0.5, 0, -0.5], ["C", 0.8 * k, -0.5, 0.8, -0.5 * k, 0.8, 0], ["Z"]]

    # (only shapes drawn before the family's first member, i.e. at the front of glyph 0, are kept out of its affine class: a
    # look-alike that comes later must not disturb the sharing - that is the repaired defect F15)
    sources = []
    for gi in range(nglyph):
        nodes = []
        for mem in members:
            if mem["glyph"] == gi:
                fill = draw(paint_st(palette, cmds_bbox(mem["cmds"]), p_grad=0.3))
                nodes.append({"t": "p", "d": mem["cmds"], "fill": fill, "op": 1.0, "tag": "fam:" + mem["kind"], "angle": mem["angle"], "m": mem["m"]})
        for lshape, ls, where, li in links:
            if gi in where:
                at = draw(st.integers(0, len(nodes)))
                cm = transform_cmds(foreign(lshape) if gi == 0 and at == 0 else lshape, achain(scale(ls), translate(vb[0] + draw(st.floats(0.2, 0.8)) * vb[2], vb[1] + draw(st.floats(0.2, 0.8)) * vb[3])))
                nodes.insert(at, {"t": "p", "d": cm, "fill": {"k": "solid", "c": "#%06x" % draw(st.integers(0, 0xFFFFFF))}, "op": 1.0, "tag": "other"})
        for _ in range(draw(st.integers(0, 2))):
            other = draw(unit_shape(("polygon", "rect", "cubic")))
            at = draw(st.integers(0, len(nodes)))
            if gi == 0 and at == 0:
                other = foreign(other)
            s2 = draw(st.floats(0.05, 0.2)) * min(vb[2], vb[3])
            m2 = achain(scale(s2, s2 * draw(st.floats(0.5, 0.9))), rotate(draw(st.floats(-180, 180))), translate(vb[0] + draw(st.floats(0.2, 0.8)) * vb[2], vb[1] + draw(st.floats(0.2, 0.8)) * vb[3]))
            cm = transform_cmds(other, m2)
            nodes.insert(at, {"t": "p", "d": cm, "fill": draw(paint_st(palette, cmds_bbox(cm), p_grad=0.2)), "op": 1.0, "tag": "other"})
        if not nodes:
            other = draw(unit_shape(("rect",)))
            cm = transform_cmds(other, achain(scale(size * 0.7, size * 0.4), translate(vb[0] + vb[2] / 2, vb[1] + vb[3] / 2)))
            nodes.append({"t": "p", "d": cm, "fill": {"k": "solid", "c": "#123456"}, "op": 1.0, "tag": "other"})
        sources.append({"model": {"vb": vb, "nodes": nodes}, "cps": [0xE000 + gi]})
    if not cfg["color_format"].startswith("picosvg") and not chained and draw(st.integers(0, 4)) == 0:
        # a tiny look-alike seen first: the family's shape, uniformly shrunk, far from the font origin (top right corner), so
        # that enlarging *it* into a member needs a translation beyond 16.16 - it can donate to nobody, and the members
        # still have to share among themselves (the statement's exception is per placing transform, not per key)
        from ..ref_svg import em_transform

        F = em_transform(tuple(vb), cfg["ascender"], cfg["descender"], cfg["width"])[0]
        px, py = vb[0] + 0.95 * vb[2], vb[1] + 0.04 * vb[3]
        fx, fy = F[0] * px + F[2] * py + F[4], F[1] * px + F[3] * py + F[5]
        kf = draw(st.sampled_from([1.15, 1.3, 1.6])) * 32768.0 / max(abs(fx), abs(fy), 1.0) + 1.0
        mt = achain(scale(size / kf), translate(px, py))
        sources[0]["model"]["nodes"].insert(0, {"t": "p", "d": transform_cmds(unit, mt), "fill": {"k": "solid", "c": "#202020"}, "op": 1.0, "tag": "other:tiny"})
    if nglyph >= 2 and draw(st.sampled_from([False, False, True])):
        # glyphs with viewBoxes of their own: same height (hence the same scale), another origin and another width. The artwork of a
        # glyph moves with its origin, so copies stay congruent in source units and in font units alike
        for gi in range(1, nglyph):
            if draw(st.booleans()):
                ox, oy = round(draw(st.floats(-0.5, 0.5)) * vb[2], 2), round(draw(st.floats(-0.5, 0.5)) * vb[3], 2)
                wide = draw(st.sampled_from([1.0, 1.0, 1.5, 2.0]))
                mdl = sources[gi]["model"]
                sh = translate(ox, oy)
                for n in mdl["nodes"]:
                    n["d"] = transform_cmds(n["d"], sh)
                    if "m" in n:
                        n["m"] = [float(x) for x in amul(sh, tuple(n["m"]))]
                    if n["fill"]["k"] != "solid" and n["fill"]["units"] == "user":
                        n["fill"] = {"k": "solid", "c": "#5577aa"}  # userSpaceOnUse geometry would have to move too: keep it simple
                mdl["vb"] = [vb[0] + ox, vb[1] + oy, vb[2] * wide, vb[3]]
    return {"cfg": cfg, "sources": sources}


def cases(tier):
    return family_case(tier)


sample_repr = c01.sample_repr


def _stored_outline(font, tag):
    """Resolve a COLRv0 composite layer glyph to the simple glyph it places."""
    if "glyf" in font and tag in font["glyf"].glyphs:
        g = font["glyf"][tag]
        seen = 0
        while g.isComposite() and len(g.components) == 1 and seen < 8:
            tag = g.components[0].glyphName
            g = font["glyf"][tag]
            seen += 1
    return tag


def _family_tags(font, case, v, label):
    rd = ColrReader(font) if "COLR" in font else None
    cache = {}
    tags = []
    for i, s in enumerate(case["sources"]):
        gname, why = reach(font, s["cps"])
        if gname is None:
            v.fail("unreachable", label + ":" + why, {"source": i})
            return None
        try:
            t, _ = impl_tree(font, gname, reader=rd, doc_cache=cache)
        except (BadCOLR, UnsupportedPaint, BadSVG, UnsupportedSVG) as e:
            v.fail("bad-colour-table", label + ":" + getattr(e, "kind", type(e).__name__), {"source": i, "msg": str(e)})
            return None
        lfs = list(leaves(t))
        paths = model_paths(s["model"])
        if len(lfs) != len(paths):
            v.fail("COUNT", label, {"source": i, "leaves": len(lfs), "paths": len(paths)})
            return None
        for lf, p in zip(lfs, paths):
            if p["tag"].startswith("fam:"):
                tags.append((i, p["tag"], _stored_outline(font, lf.tag)))
    return tags


def _classify_miss(case, cfg):
    """Why was a congruent copy not shared? Replicates, with picosvg itself (third party, the producer of the reuse key),
    the key computation on the very path strings nanoemoji feeds it: if picosvg's normalize() gives congruent copies
    different keys, the miss is picosvg's rounding-grid normalisation (known finding K4), otherwise it is nanoemoji's."""
    from picosvg.svg import SVG
    from picosvg.svg_reuse import affine_between, normalize
    from picosvg.svg_transform import Affine2D
    from picosvg.svg_types import SVGPath

    from ..gen_svg import render
    from ..ref_svg import em_transform

    tol = cfg["reuse_tolerance"]
    keys = []
    alt_keys = {}
    paths = []
    knife = False
    for s in case["sources"]:
        text = render(s["model"])
        svg = SVG.fromstring(text)
        vb = svg.view_box()
        m, _ = em_transform((vb.x, vb.y, vb.w, vb.h), cfg["ascender"], cfg["descender"], cfg["width"])
        if cfg["color_format"].startswith("picosvg"):
            m = I  # the OT-SVG writer keys and compares shapes in source (viewBox) units
        shapes = list(svg.shapes())
        for shp, p in zip(shapes, model_paths(s["model"])):
            if p["tag"].startswith("fam:"):
                fp = SVGPath(d=shp.as_path().d).apply_transform(Affine2D(*m))
                paths.append(fp)
                keys.append(normalize(SVGPath(d=fp.d), tol / 10).d)
                # the same outline in the other spellings the tool may hand to picosvg (the source's own path string, 3 decimals):
                # a symmetric shape's normal form flips with the last digit, so keys are compared per spelling
                try:
                    alt_keys.setdefault("raw", []).append(normalize(SVGPath(d=shp.as_path().d).apply_transform(Affine2D(*m)) if m != I else SVGPath(d=shp.as_path().d), tol / 10).d)
                    alt_keys.setdefault("r3", []).append(normalize(SVGPath(d=fp.round_floats(3).d), tol / 10).d)
                except Exception:
                    pass
                # the same normal form before it is snapped to the grid: a coordinate within 1e-3 grid steps of a rounding
                # boundary (x.5 steps) is snapped either way by float noise in the last digit of the path string, so the keys
                # nanoemoji sees can differ although this replica's happen to agree
                fine = normalize(SVGPath(d=fp.d), tol / 10 * 1e-7).d
                for num in re.findall(r"-?\d+\.?\d*(?:e-?\d+)?", fine):
                    q = float(num) / (tol / 10)
                    if abs(abs(q - math.floor(q)) - 0.5) < 1e-3:
                        knife = True
    if len(set(keys)) > 1 or knife or any(len(set(ks)) > 1 for ks in alt_keys.values()):
        return "normalisation-key-differs"
    for p in paths[1:]:
        if affine_between(SVGPath(d=paths[0].d), SVGPath(d=p.d), tol) is None:
            return "affine-between-none"
    return "keys-equal"


def _cannot_donate(case, cfg, node):
    """True when the affine that lays `node` (a look-alike in glyph 0) over *each* family member exists and overflows 16.16 by
    a clear margin (> 34000), computed by picosvg on font-unit paths prepared the way nanoemoji prepares them."""
    from picosvg.svg import SVG
    from picosvg.svg_reuse import affine_between
    from picosvg.svg_transform import Affine2D
    from picosvg.svg_types import SVGPath

    from ..gen_svg import render
    from ..ref_svg import em_transform

    if cfg["color_format"].startswith("picosvg"):
        return False
    donor, members = None, []
    for s in case["sources"]:
        svg = SVG.fromstring(render(s["model"]))
        vb = svg.view_box()
        m, _ = em_transform((vb.x, vb.y, vb.w, vb.h), cfg["ascender"], cfg["descender"], cfg["width"])
        for shp, p in zip(svg.shapes(), model_paths(s["model"])):
            fp = SVGPath(d=shp.as_path().d).apply_transform(Affine2D(*m))
            if p is node:
                donor = fp
            elif p["tag"].startswith("fam:"):
                members.append(fp)
    if donor is None or not members:
        return False
    for mem in members:
        a = affine_between(SVGPath(d=donor.d), SVGPath(d=mem.d), cfg["reuse_tolerance"])
        if a is None or max(abs(x) for x in a) <= 34000.0:
            return False
    return True


def judge(case):
    v = Verdict()
    cfg = case["cfg"]
    srcs = to_build_sources(case)
    fam = [p for s in case["sources"] for p in model_paths(s["model"]) if p["tag"].startswith("fam:")]
    v.cls("fmt:" + cfg["color_format"], "tol:%s" % cfg["reuse_tolerance"], "members:%d" % len(fam), "glyphs:%d" % len(srcs))
    nt = False
    for p in fam:
        k = p["tag"][4:]
        v.cls("iso:" + k)
        a = abs(p.get("angle", 0.0)) % 90.0
        if k == "mirror" or (k == "rotate" and min(a, 90 - a) > 1.0):
            nt = True
    v.nontrivial = nt
    # the tolerance is applied to font-unit paths: a family not much larger than the tolerance is not "copies that
    # differ only by an isometry" any more (picosvg's affine_between ignores edges shorter than the tolerance)
    from ..geom import bbox as _bb
    vb = case["sources"][0]["model"]["vb"]
    fscale = 1.0 if cfg["color_format"].startswith("picosvg") else (cfg["ascender"] - cfg["descender"]) / vb[3]
    bb = cmds_bbox(fam[0]["d"])
    fsize = min(bb[2] - bb[0], bb[3] - bb[1]) * fscale
    if fsize < 40 * cfg["reuse_tolerance"]:
        v.discard = "family smaller than 40x tolerance in font units"
        return v
    # a shape outside the family that is an affine image of it (every triangle is one of every other) and is drawn first may
    # legitimately become the donor of the family's members: "copies of a shape" no longer describes the input
    from picosvg.svg_reuse import normalize as _norm
    from picosvg.svg_types import SVGPath as _SP

    from ..gen_svg import cmds_to_d as _d

    try:
        fkey = _norm(_SP(d=_d(fam[0]["d"])), 0.01).d
        seen_family = False
        for s_ in case["sources"]:
            for p in model_paths(s_["model"]):
                if p["tag"].startswith("fam:"):
                    seen_family = True
                elif not seen_family and (p["tag"] == "other:tiny" or _norm(_SP(d=_d(p["d"])), 0.01).d == fkey):
                    # drawn before the family's first member it is the first candidate donor; after it, it must not matter
                    if _cannot_donate(case, cfg, p):
                        v.cls("lookalike-first-unplaceable")  # ... unless placing it over any member is beyond 16.16
                        continue
                    v.discard = "a shape outside the family, drawn before it, is an affine image of it"
                    return v
            if seen_family:
                break
    except Exception:
        pass
    # "unless the placing transform cannot be represented": 16.16 holds |x| < 32768. Which member becomes the donor is the
    # code's choice, so the case is only judged when the affine between *every* ordered pair of members (and its inverse,
    # needed for a gradient fill) fits; that includes everything up to the format's real limit.
    beyond = False
    if all("m" in p for p in fam):
        from ..geom import ainv
        from ..ref_svg import em_transform

        def to_font(v_):
            return I if cfg["color_format"].startswith("picosvg") else em_transform(tuple(v_), cfg["ascender"], cfg["descender"], cfg["width"])[0]

        fam_f = [(p, to_font(s_["model"]["vb"])) for s_ in case["sources"] for p in model_paths(s_["model"]) if p["tag"].startswith("fam:")]
        worst = 0.0
        for a, Fa in fam_f:
            for b, Fb in fam_f:
                if a is not b:
                    A = achain(ainv(Fa), ainv(tuple(a["m"])), tuple(b["m"]), Fb)
                    worst = max(worst, max(abs(x) for x in A))
        v.extra["max_affine_entry"] = worst
        beyond = worst >= 32767.0
        if worst > 16384 and not beyond:
            v.cls("affine-entry>16384")
    on = build.build_font(cfg, srcs)
    off = build.build_font(dict(cfg, reuse_tolerance=-1), srcs)
    if on.error is not None or off.error is not None:
        e = on.error or off.error
        if on.error is not None and off.error is not None:  # the input itself cannot be built (the two paths may notice it in different places)
            v.rejected = "both builds raise " + type(e).__name__  # e.g. gradient geometry beyond int16 at a large em scale
            return v
        v.fail("build-error", type(e).__name__, {"error": repr(e)[:300]})
        return v
    if beyond:
        # the statement's exception: such copies may be stored separately - but the build above had to succeed all the same
        v.rejected = "placing transform beyond 16.16 (build succeeds)"
        return v
    t_on = _family_tags(on.font, case, v, "on")
    t_off = _family_tags(off.font, case, v, "off")
    if t_on is None or t_off is None:
        return v
    distinct_on = sorted({t for _, _, t in t_on})
    if len(distinct_on) != 1:
        cause = _classify_miss(case, cfg)
        v.fail("not-shared", cause + ":" + cfg["color_format"], {"members": t_on, "distinct": distinct_on, "tolerance": cfg["reuse_tolerance"], "cause": cause})
    distinct_off = {t for _, _, t in t_off}
    if len(distinct_off) != len(t_off):
        v.fail("shared-with-reuse-disabled", cfg["color_format"], {"members": t_off})
    return v


def shrink(case):
    srcs = case["sources"]
    for i, s in enumerate(srcs):
        nodes = s["model"]["nodes"]
        for k, n in enumerate(nodes):
            if n["tag"] == "other" and len(nodes) > 1:
                yield dict(case, sources=srcs[:i] + [dict(s, model=dict(s["model"], nodes=nodes[:k] + nodes[k + 1 :]))] + srcs[i + 1 :])
            elif n["fill"]["k"] != "solid":
                yield dict(case, sources=srcs[:i] + [dict(s, model=dict(s["model"], nodes=nodes[:k] + [dict(n, fill={"k": "solid", "c": "#808080"})] + nodes[k + 1 :]))] + srcs[i + 1 :])
