"""C09 – re-running after any edit or interruption converges to the clean build."""
import os
import shutil

from hypothesis import strategies as st

from .. import build
from ..cli import Workspace, fonts_in, sha, tail
from ..gen_svg import font_palette, render, source_model
from ..verdict import Verdict

ID = "C09"
LEVEL = "fault_enumeration"
RULE = (
    "A history over one build directory is drawn as a sequence of rounds; each round makes 1-3 changes out of {add source, modify source "
    "(same name, new content), rename source (new codepoints), remove source (>= 1 kept), change option (color_format among glyf_colr_1, "
    "glyf_colr_0, glyf, picosvg, untouchedsvg, cbdt (half of the COLR histories given by TOML build a two-master variable font); upem; reuse_tolerance; clip_to_viewbox; clipbox_quantization; keep_glyph_names; "
    "bitmap_resolution; use_pngquant; use_zopflipng)} and then invokes the real nanoemoji CLI, possibly with a fault: target in {picosvg, "
    "write_glyphmap, write_fea, write_part_file, write_combined_part_files, write_font, pngquant module, zopfli.png, resvg binary, the driver} "
    "x mode in {exit != 0 before writing, truncated output then exit != 0, truncated output then SIGKILL, driver killed before ninja, driver "
    "killed with a truncated build.ninja}. Faults for Python steps come from a sitecustomize on PYTHONPATH, for binaries from PATH shims; every "
    "firing is logged. Oracle after every invocation: if a fault fired the exit status must be != 0; if the invocation exits 0 the output font's "
    "bytes must equal those of a clean build of the current sources and options in an empty sibling directory; an invocation without a fired "
    "fault must succeed whenever the clean build does. Non-trivial: a successful invocation preceded by an edit and by a fired fault or an option "
    "change since the previous success."
)
ASSUMPTIONS = [
    "crash points are step kinds x 5 modes, not every instruction; ninja's own log writing is not interrupted",
    "SOURCE_DATE_EPOCH fixed; a disagreement between two clean builds would be C08's business",
]
BUDGET = {"quick": 12, "thorough": 240}
TIMEOUT = {"quick": 1800, "thorough": 10000}
MAX_WORKERS = 16

FORMATS = ["glyf_colr_1", "glyf_colr_0", "glyf", "picosvg", "untouchedsvg", "cbdt"]
PY_TARGETS = ["picosvg", "nanoemoji.write_glyphmap", "nanoemoji.write_fea", "nanoemoji.write_part_file", "nanoemoji.write_combined_part_files",
              "nanoemoji.write_font", "nanoemoji.pngquant", "zopfli.png"]
MODES = ["fail_before", "truncate_fail", "truncate_kill"]


def setup_worker():
    build.init()


@st.composite
def small_svg(draw, palette):
    m = draw(source_model(palette, None, vb=[0.0, 0.0, 100.0, 100.0], max_shapes=3, p_grad=0.3, allow_groups=False))
    return render(m)


@st.composite
def history(draw, tier):
    palette = draw(font_palette())
    pool = [0x1F600 + i for i in range(12)]
    live = []
    steps = []
    opts = {"color_format": draw(st.sampled_from(FORMATS))}

    def new_cps():
        for _ in range(20):
            n = draw(st.sampled_from([1, 1, 2]))
            c = [draw(st.sampled_from(pool)) for _ in range(n)]
            if c not in live:
                return c
        return None

    for _ in range(draw(st.integers(1, 3))):
        c = new_cps()
        if c:
            live.append(c)
            steps.append({"op": "add", "cps": c, "svg": draw(small_svg(palette))})
    steps.append({"op": "invoke", "fault": None})
    nrounds = draw(st.integers(1, 2 if tier == "quick" else 5))
    for r in range(nrounds):
        for _ in range(draw(st.integers(1, 3))):
            op = draw(st.sampled_from(["add", "modify", "modify", "rename", "remove", "option", "option"]))
            if op == "add":
                c = new_cps()
                if c:
                    live.append(c)
                    steps.append({"op": "add", "cps": c, "svg": draw(small_svg(palette))})
            elif op == "modify":
                c = draw(st.sampled_from(live))
                steps.append({"op": "modify", "cps": c, "svg": draw(small_svg(palette))})
            elif op == "rename":
                c = draw(st.sampled_from(live))
                c2 = new_cps()
                if c2:
                    live[live.index(c)] = c2
                    # mv keeps the modification time; most renames are followed by a touch so that the search continues behind
                    # known finding K6 (a renamed file that is older than the intermediate built from the same name before)
                    steps.append({"op": "rename", "cps": c, "to": c2, "touch": draw(st.sampled_from([True] * 7 + [False]))})
            elif op == "remove" and len(live) > 1:
                c = draw(st.sampled_from(live))
                live.remove(c)
                steps.append({"op": "remove", "cps": c})
            else:
                k = draw(st.sampled_from(["color_format", "color_format", "upem", "reuse_tolerance", "clip_to_viewbox", "clipbox_quantization", "keep_glyph_names",
                                          "bitmap_resolution", "use_pngquant", "use_zopflipng"]))
                val = {
                    "color_format": st.sampled_from(FORMATS), "upem": st.sampled_from([1000, 1024, 2048]), "reuse_tolerance": st.sampled_from([0.1, -1, 0.5]),
                    "clip_to_viewbox": st.booleans(), "clipbox_quantization": st.sampled_from([1, 8, 50]), "keep_glyph_names": st.booleans(),
                    "bitmap_resolution": st.sampled_from([24, 32, 48]), "use_pngquant": st.booleans(), "use_zopflipng": st.booleans(),
                }[k]
                opts[k] = draw(val)
                steps.append({"op": "option", "key": k, "value": opts[k]})
        fault = None
        if draw(st.integers(0, 9)) < 6:
            kind = draw(st.sampled_from(["py", "py", "py", "bin", "driver"]))
            if kind == "py":
                fault = "%s:%s" % (draw(st.sampled_from(PY_TARGETS)), draw(st.sampled_from(MODES)))
            elif kind == "bin":
                fault = "%s-bin:%s" % (draw(st.sampled_from(["resvg", "pngquant"])), draw(st.sampled_from(MODES)))
            else:
                fault = "driver:%s" % draw(st.sampled_from(["driver_kill_before_ninja", "driver_truncate_ninja"]))
        steps.append({"op": "invoke", "fault": fault})
        if fault:
            steps.append({"op": "invoke", "fault": None})
    via_toml = draw(st.booleans())
    vf = via_toml and opts.get("color_format") in ("glyf_colr_1", "glyf_colr_0") and draw(st.booleans())
    if vf:  # a variable font is a COLR font throughout
        steps = [x for x in steps if not (x["op"] == "option" and x["key"] == "color_format")]
    return {"steps": steps, "via_toml": via_toml, "vf": vf}


def cases(tier):
    return history(tier)


SVG_A = '<svg xmlns="http://www.w3.org/2000/svg" viewBox="0 0 100 100"><rect x="10" y="10" width="40" height="30" fill="#c02030"/><circle cx="60" cy="60" r="20" fill="#2040c0"/></svg>'
SVG_B = '<svg xmlns="http://www.w3.org/2000/svg" viewBox="0 0 100 100"><path d="M20,80 L50,20 L80,80 Z" fill="#10a040"/></svg>'
SVG_C = '<svg xmlns="http://www.w3.org/2000/svg" viewBox="0 0 100 100"><rect x="30" y="30" width="40" height="40" fill="#e0a000" opacity="0.5"/></svg>'


def enumerate_cases(tier):
    """Fault enumeration: every step kind x mode of the build graph, plus the two driver faults, each in a fixed short history
    where the faulted invocation is (a) the first one in an empty build directory, so every step is dirty and the fault is
    sure to fire, or (b) the one after an edit of every source and of the configuration. Quick: (a) for all faults, (b) for
    a VERIF_SEED-dependent third; thorough: both for all."""
    seed = int(os.environ.get("VERIF_SEED") or "1")
    faults = []
    for tgt in PY_TARGETS:
        for mode in MODES:
            faults.append(("cbdt" if tgt in ("nanoemoji.pngquant", "zopfli.png") else "glyf_colr_1", "%s:%s" % (tgt, mode)))
    for tgt in ("resvg", "pngquant"):
        for mode in MODES:
            faults.append(("cbdt", "%s-bin:%s" % (tgt, mode)))
    for mode in ("driver_kill_before_ninja", "driver_truncate_ninja"):
        faults.append(("glyf_colr_1", "driver:" + mode))
        faults.append(("picosvg", "driver:" + mode))
    yield from _edit_rows()
    # nothing but an option changes between two invocations of a static build (by flag and by file): only the resolved
    # configuration tells the font step that it has to run again
    a, b = [0x1F600], [0x1F601, 0x200D, 0x1F602]
    for i, (fmt, key, val) in enumerate([("glyf_colr_1", "family", "Second Family"), ("picosvg", "width", 900), ("cbdt", "keep_glyph_names", True),
                                         ("glyf_colr_0", "upem", 2048), ("untouchedsvg", "linegap", 120), ("glyf", "clipbox_quantization", 50)]):
        yield {"steps": [{"op": "option", "key": "color_format", "value": fmt}, {"op": "add", "cps": a, "svg": SVG_A}, {"op": "add", "cps": b, "svg": SVG_B}, {"op": "invoke", "fault": None},
                         {"op": "option", "key": key, "value": val}, {"op": "invoke", "fault": None}], "via_toml": i % 2 == 0}
    # a two-master variable font: options that touch no intermediate file, a source edit, an option and an edit together
    a, b = [0x1F600], [0x1F601, 0x200D, 0x1F602]
    base = [{"op": "option", "key": "color_format", "value": "glyf_colr_1"}, {"op": "add", "cps": a, "svg": SVG_A}, {"op": "add", "cps": b, "svg": SVG_B}, {"op": "invoke", "fault": None}]
    yield {"steps": base + [{"op": "option", "key": "family", "value": "Second Family"}, {"op": "option", "key": "width", "value": 900}, {"op": "invoke", "fault": None},
                            {"op": "modify", "cps": a, "svg": SVG_C}, {"op": "invoke", "fault": None}], "via_toml": True, "vf": True}
    yield {"steps": base + [{"op": "option", "key": "upem", "value": 2048}, {"op": "invoke", "fault": None}, {"op": "option", "key": "keep_glyph_names", "value": True},
                            {"op": "modify", "cps": b, "svg": SVG_A}, {"op": "invoke", "fault": None}], "via_toml": True, "vf": True}
    for i, (fmt, fault) in enumerate(faults):
        opt = [{"op": "option", "key": "color_format", "value": fmt}]
        add = [{"op": "add", "cps": [0x1F600], "svg": SVG_A}, {"op": "add", "cps": [0x1F601, 0x200D, 0x1F602], "svg": SVG_B}]
        yield {"steps": opt + add + [{"op": "invoke", "fault": fault}, {"op": "invoke", "fault": None}], "via_toml": i % 2 == 0}
        if tier == "thorough" or (i + seed) % 3 == 0:
            edit = [{"op": "modify", "cps": [0x1F600], "svg": SVG_C}, {"op": "modify", "cps": [0x1F601, 0x200D, 0x1F602], "svg": SVG_A}, {"op": "option", "key": "upem", "value": 2048}]
            yield {"steps": opt + add + [{"op": "invoke", "fault": None}] + edit + [{"op": "invoke", "fault": fault}, {"op": "invoke", "fault": None}, {"op": "invoke", "fault": None}], "via_toml": i % 2 == 1}


SVG_FLAT = '<svg xmlns="http://www.w3.org/2000/svg" viewBox="0 0 100 100"><rect x="0" y="0" width="100" height="100" fill="#3070b0"/></svg>'
SVG_RICH = ('<svg xmlns="http://www.w3.org/2000/svg" viewBox="0 0 100 100"><defs><linearGradient id="a" x1="0" y1="0" x2="100" y2="100" gradientUnits="userSpaceOnUse">'
            '<stop offset="0" stop-color="#ff0000"/><stop offset="0.5" stop-color="#00ff00"/><stop offset="1" stop-color="#0000ff"/></linearGradient>'
            '<radialGradient id="b" cx="60" cy="40" r="50" gradientUnits="userSpaceOnUse"><stop offset="0" stop-color="#ffff00"/><stop offset="1" stop-color="#800080" stop-opacity="0.4"/></radialGradient></defs>'
            '<rect x="5" y="5" width="90" height="90" fill="url(#a)"/><circle cx="55" cy="45" r="35" fill="url(#b)"/></svg>')


def _mosaic(n=24):
    cells = []
    for i in range(n):
        for j in range(n):
            k = i * n + j
            cells.append('<rect x="%g" y="%g" width="%g" height="%g" fill="#%02x%02x%02x"/>' % (j * 100 / n, i * 100 / n, 100 / n, 100 / n, (k * 73) % 256, (k * 151 + 40) % 256, (k * 211 + 90) % 256))
    return '<svg xmlns="http://www.w3.org/2000/svg" viewBox="0 0 100 100">' + "".join(cells) + "</svg>"


SVG_MOSAIC = _mosaic()  # 576 colours at 32 px: pngquant cannot reach quality 85 and declines (exit 99), the wrapper passes the input on


def _edit_rows():
    """No fault at all: build, edit every source in place (and, second row, back again), rebuild - per colour format, bitmap
    formats with each optimiser on and off. The edited images are chosen so that the PNG optimisers take both of their
    exits (images that are quantised, a 576-colour mosaic for which pngquant declines)."""
    a, b = [0x1F600], [0x1F601, 0x200D, 0x1F602]
    rows = [(f, {}) for f in FORMATS + ["sbix"]] + [("cbdt", {"use_pngquant": False}), ("cbdt", {"use_zopflipng": False}), ("sbix", {"use_pngquant": False, "use_zopflipng": False})]
    for i, (fmt, extra) in enumerate(rows):
        opt = [{"op": "option", "key": "color_format", "value": fmt}] + [{"op": "option", "key": k, "value": x} for k, x in extra.items()]
        first, second = ((SVG_RICH, SVG_A), (SVG_MOSAIC, SVG_RICH)) if i % 2 == 0 else ((SVG_MOSAIC, SVG_B), (SVG_FLAT, SVG_MOSAIC))
        steps = opt + [{"op": "add", "cps": a, "svg": first[0]}, {"op": "add", "cps": b, "svg": first[1]}, {"op": "invoke", "fault": None},
                       {"op": "modify", "cps": a, "svg": second[0]}, {"op": "modify", "cps": b, "svg": second[1]}, {"op": "invoke", "fault": None},
                       {"op": "modify", "cps": a, "svg": first[0]}, {"op": "invoke", "fault": None}]
        yield {"steps": steps, "via_toml": i % 2 == 1}


def fname(cps):
    return "emoji_u" + "_".join("%04x" % c for c in cps) + ".svg"


def flags_for(opts):
    out = []
    for k, val in sorted(opts.items()):
        if isinstance(val, bool):
            out.append("--%s%s" % ("" if val else "no", k))
        else:
            out += ["--" + k, str(val)]
    if opts.get("color_format") in ("cbdt", "sbix") and "bitmap_resolution" not in opts:
        out += ["--bitmap_resolution", "32"]
    return out


def toml_for(opts, vf=False):
    lines = []
    o = dict(opts)
    if o.get("color_format") in ("cbdt", "sbix") and "bitmap_resolution" not in o:
        o["bitmap_resolution"] = 32
    for k, val in sorted(o.items()):
        if isinstance(val, bool):
            lines.append("%s = %s" % (k, "true" if val else "false"))
        elif isinstance(val, str):
            lines.append('%s = "%s"' % (k, val))
        else:
            lines.append("%s = %s" % (k, val))
    lines += ["[axis.wght]", 'name = "Weight"', "default = 400", "[master.regular]", 'style_name = "Regular"', 'srcs = ["src/*.svg"]', "[master.regular.position]", "wght = 400"]
    if vf:
        # a second master (a copy of the sources, kept in step by invoke): the font goes through the per-master UFO and merge steps
        lines += ["[master.bold]", 'style_name = "Bold"', 'srcs = ["src_bold/*.svg"]', "[master.bold.position]", "wght = 700"]
    return "\n".join(lines) + "\n"


def invoke(ws, root, opts, via_toml, fault=None, vf=False):
    srcs = sorted(os.listdir(os.path.join(root, "src")))
    if vf:
        bold = os.path.join(root, "src_bold")
        shutil.rmtree(bold, ignore_errors=True)
        shutil.copytree(os.path.join(root, "src"), bold)  # copy2: modification times are kept
    if via_toml:
        with open(os.path.join(root, "font.toml"), "w") as f:
            f.write(toml_for(opts, vf))
        args = ["nanoemoji", "--build_dir", "build", "font.toml"]
    else:
        args = ["nanoemoji", "--build_dir", "build"] + flags_for(opts) + ["src/" + s for s in srcs]
    rc, out = ws.run(args, cwd=root, fault=fault, ninja_j=4)
    fonts = fonts_in(os.path.join(root, "build"))
    return rc, out, fonts


def judge(case):
    v = Verdict()
    steps = case["steps"]
    via_toml = case["via_toml"]
    vf = bool(case.get("vf")) and via_toml
    v.cls("config:" + ("toml" if via_toml else "flags"))
    if vf:
        v.cls("variable-font")
    opts = {}
    edits_since_success = 0
    fault_or_option_since_success = False
    had_success = False
    ever_built = set()  # source file names some earlier invocation has seen
    old_mtime_reuse = False  # a file was moved, with its old mtime, onto a name that was built before
    with Workspace("c09") as ws, Workspace("c09clean") as clean:
        ws.shims()
        clean.shims()
        root = ws.path("proj")
        os.makedirs(os.path.join(root, "src"))
        for si, s in enumerate(steps):
            op = s["op"]
            if op == "add" or op == "modify":
                ws.write("proj/src/" + fname(s["cps"]), s["svg"])
                edits_since_success += 1
            elif op == "rename":
                dst = ws.path("proj/src/" + fname(s["to"]))
                os.rename(ws.path("proj/src/" + fname(s["cps"])), dst)
                if s.get("touch", True):
                    os.utime(dst, None)
                elif fname(s["to"]) in ever_built:
                    old_mtime_reuse = True
                edits_since_success += 1
            elif op == "remove":
                os.remove(ws.path("proj/src/" + fname(s["cps"])))
                edits_since_success += 1
            elif op == "option":
                opts[s["key"]] = s["value"]
                fault_or_option_since_success = True
                v.cls("option:" + s["key"])
            else:
                fault = s["fault"]
                ever_built.update(os.listdir(os.path.join(root, "src")))
                rc, out, fonts = invoke(ws, root, opts, via_toml, fault, vf=vf)
                fired = ws.fault_fired()
                v.extra_evals += 1
                if fault:
                    v.cls("fault:" + fault)
                if fired:
                    v.cls("fired:" + fault)
                    fault_or_option_since_success = True
                    if rc == 0:
                        v.fail("fault-swallowed", fault, {"step": si, "fired": fired, "out": tail(out, 6)})
                    continue
                # no fault fired: compare with the clean build
                croot = clean.path("proj")
                shutil.rmtree(croot, ignore_errors=True)
                os.makedirs(croot)
                shutil.copytree(os.path.join(root, "src"), os.path.join(croot, "src"))
                crc, cout, cfonts = invoke(clean, croot, opts, via_toml, None, vf=vf)
                v.extra_evals += 1
                if rc != 0:
                    if crc != 0:
                        v.cls("both-fail")
                        continue
                    v.fail("incremental-fails-clean-succeeds", opts.get("color_format", "default"), {"step": si, "out": tail(out, 10), "history": [x if x["op"] != "add" and x["op"] != "modify" else dict(x, svg="…") for x in steps[: si + 1]]})
                    continue
                if crc != 0:
                    v.fail("clean-fails-incremental-succeeds", opts.get("color_format", "default"), {"step": si, "out": tail(cout, 10)})
                    continue
                want = {os.path.basename(f): sha(f) for f in cfonts}
                got = {os.path.basename(f): sha(f) for f in fonts}
                # stale fonts from earlier output names are not the subject; the configured output must match
                for name, h in want.items():
                    if got.get(name) != h:
                        v.fail("stale-output", ("old-mtime-onto-built-name:" if old_mtime_reuse else "") + opts.get("color_format", "default"), {"step": si, "font": name, "incremental": got.get(name), "clean": h,
                                                                                      "history": [x if x["op"] not in ("add", "modify") else dict(x, svg="…") for x in steps[: si + 1]]})
                if edits_since_success and fault_or_option_since_success:
                    v.nontrivial = True
                had_success = True
                edits_since_success = 0
                fault_or_option_since_success = False
    return v


def sample_repr(case):
    return {"via_toml": case["via_toml"], "steps": [x if x["op"] not in ("add", "modify") else dict(x, svg=x["svg"][:80] + "…") for x in case["steps"]]}


def shrink(case):
    steps = case["steps"]
    for i in range(len(steps) - 1):
        if steps[i]["op"] in ("modify", "option") or (steps[i]["op"] == "invoke" and i > 0):
            yield dict(case, steps=steps[:i] + steps[i + 1 :])
