"""C06 – shape and gradient reuse never changes what is painted (metamorphic: reuse on vs. reuse off)."""
from hypothesis import strategies as st

from .. import build
from ..display import Budget, leaves
from ..ref_colr import BadCOLR, ColrReader, UnsupportedPaint
from ..ref_svg import BadSVG, UnsupportedSVG
from ..vecoracle import Ref, case_classes, compare_trees, impl_tree, reach, reuse_stats, to_build_sources
from ..verdict import Verdict
from . import c01

ID = "C06"
LEVEL = "exploration"
RULE = (
    "Source sets in direct normal form (>= 6 decimals) whose shapes come from a shared library placed under drawn affines: identity, "
    "translation (small / far), rotation, reflection, uniform, non-uniform and large scale, shear, and near-misses (an exact copy with one "
    "coordinate moved by 0.5x, 1x, 2x the default tolerance), a 3-130x smaller copy whose gradient overflows int16 when mapped back to the donor, solid and gradient fills (both unit systems, gradientTransform, focal point) "
    "x reuse_tolerance in {0, 0.01, 0.1, 0.5, 2} x {glyf_colr_1, glyf_colr_0, picosvg}. Metamorphic oracle: the same sources are built with "
    "tolerance t and with -1; both builds must succeed (an error with t that the -1 build does not raise is a violation); for every source the "
    "display trees of the two fonts must be layer-for-layer equivalent: same structure, outlines within t (as a distance) plus the quantisation "
    "of both builds scaled by the placing transform, same colour at probe points. Non-trivial: reuse really fired (the t build shares or "
    "transforms an outline) or a near-miss is present."
)
ASSUMPTIONS = ["fontTools decompiles COLR/CPAL/glyf/SVG correctly", "both builds are judged by the same reference interpreters"]
BUDGET = {"quick": 480, "thorough": 16000}
TIMEOUT = {"quick": 900, "thorough": 7200}
FORMATS = ["glyf_colr_1", "glyf_colr_0", "picosvg"]
TOLS = [0.1, 0.1, 0.1, 0.01, 0.5, 2.0, 0.1, 0.5, 0.05, 1.0, 0.1, 0]


def setup_worker():
    build.init()


def enumerate_cases(tier):
    yield from c01.origin_rows(["glyf_colr_1", "glyf_colr_0", "picosvg"])


def cases(tier):
    main = c01.vector_case(FORMATS, tier, max_sources=4 if tier == "quick" else 8, lib_always=True, lib_prob=0.85, p_grad=0.35,
                           tolerances=TOLS, allow_groups=True)
    return st.one_of(main, main, main, c01.grid_case(FORMATS, tier, tolerances=[0.1, 0.5, 0.01]), c01.grid_case(FORMATS, tier, tolerances=[0.1, 0.1, 0.5]), c01.far_reuse_case(FORMATS, tier), c01.paint_variants_case(FORMATS, tier), c01.overlay_case(FORMATS, tier), c01.prefix_pair_case(FORMATS, tier), c01.sandwich_case(FORMATS, tier, tolerances=TOLS), c01.inplace_reuse_case(FORMATS, tier))


shrink = c01.shrink
sample_repr = c01.sample_repr


def _trees(font, srcs, v, label):
    rd = ColrReader(font) if "COLR" in font else None
    cache = {}
    out = []
    for i, s in enumerate(srcs):
        gname, why = reach(font, s["cps"])
        if gname is None:
            v.fail("unreachable", label + ":" + why, {"source": i})
            out.append(None)
            continue
        try:
            t, _ = impl_tree(font, gname, reader=rd, doc_cache=cache)
        except (BadCOLR, UnsupportedPaint, BadSVG, UnsupportedSVG) as e:
            v.fail("bad-colour-table", label + ":" + getattr(e, "kind", type(e).__name__), {"source": i, "msg": str(e)})
            t = None
        out.append(t)
    return out


def judge(case):
    v = Verdict()
    cfg = dict(case["cfg"])
    t = cfg["reuse_tolerance"]
    case_classes(case, v)
    v.cls("tol:%s" % t)
    srcs = to_build_sources(case)
    off = build.build_font(dict(cfg, reuse_tolerance=-1), srcs)
    if t > 0 and sum(len(s_["svg"]) for s_ in srcs) % 2 == 0:  # half of the cases, decided by the case itself
        # the same sources built first with a much looser tolerance in this process (as any program that builds several fonts
        # does): whatever the reuse machinery remembers must not leak into the build that is judged
        v.cls("warm-up:looser-tolerance-first")
        build.build_font(dict(cfg, reuse_tolerance=max(5.0, 50 * t)), srcs)
    on = build.build_font(cfg, srcs)
    if on.error is not None or off.error is not None:
        if on.error is not None and off.error is not None:  # the input itself cannot be built (the two paths may notice it in different places)
            v.rejected = "both builds raise " + type(on.error).__name__
            return v
        which = "reuse-on" if on.error is not None else "reuse-off"
        e = on.error or off.error
        key = "%s:%s" % (which, type(e).__name__) + (":tolerance0" if t == 0 else "")
        v.fail("build-error", key, {"error": repr(e)[:400], "tolerance": t})
        return v
    fmt = cfg["color_format"]
    if max([Ref(s["svg"], cfg).max_coord() for s in srcs] + [0.0]) > c01.DOMAIN_COORD:
        v.discard = "reference geometry beyond %d font units" % c01.DOMAIN_COORD
        return v
    target = "otsvg" if fmt.startswith("picosvg") else "colr"
    t_on = _trees(on.font, srcs, v, "on")
    t_off = _trees(off.font, srcs, v, "off")
    refs = [Ref(s["svg"], cfg) for s in srcs]
    for i, (a, b, rf) in enumerate(zip(t_on, t_off, refs)):
        if a is None or b is None:
            continue
        q = (0.71 + 0.001 * cfg["upem"]) if target == "colr" else 0.5
        bud = Budget(target, cfg["upem"], t, rf.scale * rf.user_norm, extra_tau=q, symmetric=True)
        res, margin = compare_trees(a, b, bud)
        v.margin = max(v.margin, margin if not res else 0.0)
        tiny = target == "otsvg" and any(lf.norm < 0.05 for lf in leaves(a))
        for kind, path, detail in res[:3]:
            if tiny and kind in ("GRADIENT-SINGULAR", "GRADIENT", "OUTLINE", "WINDING"):
                # a <use> whose scale is below the 3-decimal precision of the SVG writer (see known finding K3)
                v.fail("TINY-SCALE-REUSE", "picosvg:" + kind, {"source": i, "path": path, "detail": detail, "tolerance": t})
            else:
                v.fail(kind, kind, {"source": i, "path": path, "detail": detail, "tolerance": t})
    s_on = reuse_stats([x for x in t_on if x])
    s_off = reuse_stats([x for x in t_off if x])
    fired = s_on["shared"] > s_off["shared"] or s_on["transformed"] > 0 or s_on["distinct"] < s_off["distinct"]
    if fired:
        v.cls("reuse-fired")
    near = any("near_miss" in p.get("tag", "") for s in case["sources"] for p in __import__("vlib.gen_svg", fromlist=["model_paths"]).model_paths(s["model"]))
    v.nontrivial = fired or near
    return v
