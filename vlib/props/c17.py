"""C17 – ambiguous or unusable input stops the build instead of yielding a wrong glyph."""
import os
import time

from hypothesis import strategies as st

from .. import build
from ..cli import Workspace, fonts_in, tail
from ..display import Solid, leaves
from ..ref_colr import ColrReader
from ..shaper import shape
from ..vecoracle import impl_tree
from ..verdict import Verdict

ID = "C17"
LEVEL = "exploration"
RULE = (
    "A valid set of 2-4 sources (each with a signature fill colour) plus exactly one injected defect at a drawn position of the argument list, "
    "in every colour format where the class applies: the same codepoints under two file-name spellings (emoji_u1f600.svg + 1F600.svg, "
    "emoji_u0041.svg + 41.svg, upper/lower case hex), malformed XML, truncated file, non-SVG bytes, <pattern> fill, fill referencing a missing "
    "paint server, unknown colour keyword, unknown spreadMethod, two different defaults for one palette variable (COLR builds), 2-3 masters of "
    "which a drawn one has another, one more or one fewer source name than the rest (variable build), bitmap_resolution > 255 for cbdt. Real CLI. Oracle: exit status != 0 and no output font written "
    "by this invocation; if the command exits 0 instead the font is judged like C04/C01: every source (the defective one included) must be "
    "reachable from its codepoints at a glyph of its own carrying its own signature colour; a missing, merged or re-painted source is reported. "
    "API tier: write_font._generate_color_font with two inputs of one sequence, or of one glyph name and different sequences, must raise or keep both. Non-trivial: >= 2 valid "
    "sources and the defect not in first position."
)
ASSUMPTIONS = ["picosvg's own failures count as the build stopping (they exit non-zero through ninja)"]
BUDGET = {"quick": 64, "thorough": 1200}
TIMEOUT = {"quick": 1500, "thorough": 7200}

DEFECTS = ["dup_spelling", "dup_case", "dup_leading_zero", "dup_other_dir", "malformed_xml", "truncated", "not_svg", "pattern_fill", "missing_paint_server", "bad_color",
           "bad_spread", "palette_conflict", "masters_mismatch", "cbdt_too_big", "api_dup_name"]
VECTOR = ["glyf_colr_1", "glyf_colr_0", "glyf", "picosvg", "cff_colr_1"]


def setup_worker():
    build.init()


def sig(i):
    return (30 + i * 41) % 256, (200 + i * 17) % 256, (60 + i * 73) % 256


def good_svg(i, extra=""):
    r, g, b = sig(i)
    return '<svg xmlns="http://www.w3.org/2000/svg" viewBox="0 0 100 100"><rect x="%d" y="10" width="%d" height="%d" fill="#%02x%02x%02x"/>%s</svg>' % (10 + i, 30 + 5 * i, 20 + 3 * i, r, g, b, extra)


@st.composite
def case_st(draw, tier):
    defect = draw(st.sampled_from(DEFECTS))
    n = draw(st.integers(2, 4))
    if defect == "palette_conflict":
        fmt = draw(st.sampled_from(["glyf_colr_1", "glyf_colr_0", "cff_colr_1"]))
    elif defect == "cbdt_too_big":
        fmt = "cbdt"
    elif defect == "masters_mismatch":
        fmt = "glyf_colr_1"
    elif defect.startswith("dup") or defect == "api_dup_name":
        fmt = draw(st.sampled_from(VECTOR + ["untouchedsvg", "cbdt", "sbix"]))
    else:
        fmt = draw(st.sampled_from(VECTOR))
    pos = draw(st.integers(0, n))
    cps = draw(st.lists(st.sampled_from([0x1F600 + i for i in range(10)] + [0x41, 0x61, 0x2764]), min_size=n, max_size=n, unique=True))
    mm = None
    if defect == "masters_mismatch":
        nm = draw(st.integers(2, 3))
        mm = {"masters": nm, "which": draw(st.integers(0, nm - 1)), "kind": draw(st.sampled_from(["swap", "extra", "missing"]))}
    return {"defect": defect, "fmt": fmt, "cps": cps, "pos": pos, "seq_tail": draw(st.sampled_from([None, None, 0x200D])), "mm": mm}


def cases(tier):
    return case_st(tier)


def enumerate_cases(tier):
    """Judged on every run besides the generated cases: every way one of 2-3 masters can disagree with the rest, and every other
    defect class once at the last position (so that no class depends on being drawn)."""
    cps = [0x1F600, 0x41, 0x2764]
    for nm in (2, 3):
        for which in range(nm):
            for kind in ("swap", "extra", "missing"):
                yield {"defect": "masters_mismatch", "fmt": "glyf_colr_1", "cps": cps, "pos": 1, "seq_tail": None, "mm": {"masters": nm, "which": which, "kind": kind}}
    for fmt in ("glyf_colr_1", "glyf_colr_0", "picosvg"):
        for pos in (1, 2):  # odd: one name for two sequences; even: one sequence twice
            yield {"defect": "api_dup_name", "fmt": fmt, "cps": cps, "pos": pos, "seq_tail": None, "mm": None}
    for d in DEFECTS:
        if d not in ("masters_mismatch", "api_dup_name"):
            fmt = "cbdt" if d == "cbdt_too_big" else "glyf_colr_1"
            yield {"defect": d, "fmt": fmt, "cps": cps, "pos": 3, "seq_tail": None, "mm": None}
    for fmt in ("picosvg", "untouchedsvg", "cbdt"):
        yield {"defect": "dup_other_dir", "fmt": fmt, "cps": cps, "pos": 2, "seq_tail": None, "mm": None}
    for pos, fmt in ((1, "glyf_colr_1"), (2, "glyf_colr_0"), (1, "glyf_colr_0"), (2, "cff_colr_1")):  # conflicts at palette entries 0, 5, 1
        yield {"defect": "palette_conflict", "fmt": fmt, "cps": cps, "pos": pos, "seq_tail": None, "mm": None}


def fname(cps, style="emoji_u"):
    hx = ["%04x" % c for c in cps]
    return ("emoji_u" + "_".join(hx) if style == "emoji_u" else "-".join(hx)) + ".svg"


def plant(case):
    """-> (list of (filename, text/bytes, cps or None, index of signature or None), extra args, is_vf)"""
    files = []
    for i, c in enumerate(case["cps"]):
        files.append([fname([c]), good_svg(i), [c], i])
    d = case["defect"]
    k = len(files)
    tgt = case["cps"][0]
    extra = []
    bad = None
    if d == "dup_spelling":
        bad = ["%x.svg" % tgt if tgt > 0xFF else "u%04x.svg" % tgt, good_svg(k), [tgt], k]
        if tgt <= 0xFF:
            bad[0] = "%04X.svg" % tgt if "%04x" % tgt != "%04X" % tgt else "%x.svg" % tgt
    elif d == "dup_case":
        up = "emoji_u%04X.svg" % tgt
        bad = [up if up != fname([tgt]) else "emoji_u%05x.svg" % tgt, good_svg(k), [tgt], k]
    elif d == "dup_leading_zero":
        bad = ["emoji_u%06x.svg" % tgt, good_svg(k), [tgt], k]
    elif d == "dup_other_dir":
        # the same file name in a second directory, with a valid source of that directory sorting between the two by path
        bad = ["@b/" + fname([tgt]), good_svg(k), [tgt], k]
        files.append(["@b/" + fname([0x23]), good_svg(k + 1), [0x23], k + 1])
    elif d == "malformed_xml":
        bad = [fname([0x1F6A0]), "<svg xmlns='http://www.w3.org/2000/svg' viewBox='0 0 10 10'><path d='M0,0 L1,1'", None, None]
    elif d == "truncated":
        bad = [fname([0x1F6A0]), good_svg(k)[: len(good_svg(k)) // 2], None, None]
    elif d == "not_svg":
        bad = [fname([0x1F6A0]), b"\x89PNG\r\n\x1a\n garbage \x00\x01", None, None]
    elif d == "pattern_fill":
        bad = [fname([0x1F6A0]), '<svg xmlns="http://www.w3.org/2000/svg" viewBox="0 0 100 100"><defs><pattern id="p" width="10" height="10" patternUnits="userSpaceOnUse"><rect width="5" height="5" fill="red"/></pattern></defs><rect x="10" y="10" width="50" height="50" fill="url(#p)"/></svg>', None, None]
    elif d == "missing_paint_server":
        bad = [fname([0x1F6A0]), '<svg xmlns="http://www.w3.org/2000/svg" viewBox="0 0 100 100"><rect x="10" y="10" width="50" height="50" fill="url(#nope)"/></svg>', None, None]
    elif d == "bad_color":
        bad = [fname([0x1F6A0]), '<svg xmlns="http://www.w3.org/2000/svg" viewBox="0 0 100 100"><rect x="10" y="10" width="50" height="50" fill="notacolor"/></svg>', None, None]
    elif d == "bad_spread":
        bad = [fname([0x1F6A0]), '<svg xmlns="http://www.w3.org/2000/svg" viewBox="0 0 100 100"><defs><linearGradient id="g" spreadMethod="bogus"><stop offset="0" stop-color="red"/><stop offset="1" stop-color="blue"/></linearGradient></defs><rect x="10" y="10" width="50" height="50" fill="url(#g)"/></svg>', None, None]
    elif d == "palette_conflict":
        k = [1, 0, 5][(case["pos"] + len(case["cps"])) % 3]  # entry 0 is an index like any other
        files[0][1] = good_svg(0, '<rect x="60" y="60" width="20" height="20" fill="var(--color%d, red)"/>' % k)
        bad = [fname([0x1F6A0]), '<svg xmlns="http://www.w3.org/2000/svg" viewBox="0 0 100 100"><rect x="10" y="10" width="30" height="30" fill="var(--color%d, blue)"/></svg>' % k, None, None]
    elif d == "cbdt_too_big":
        extra = ["--bitmap_resolution", "300"]
    if case["seq_tail"] and bad is None and d not in ("masters_mismatch",):
        files[-1][0] = fname([case["cps"][-1], case["seq_tail"], 0x1F467])
        files[-1][2] = [case["cps"][-1], case["seq_tail"], 0x1F467]
    if bad is not None:
        files.insert(min(case["pos"], len(files)), bad)
    return files, extra


def artwork_ok(font, cps, i, fmt, rd, cache):
    g = shape(font, cps)
    if g is None or len(g) != 1:
        return None, "unreachable"
    gname = g[0]
    r, gg, b = sig(i)
    if fmt in ("cbdt", "sbix", "glyf", "untouchedsvg"):
        return gname, None  # identity of the artwork is C04's business for these; here only distinctness/reachability
    t, _ = impl_tree(font, gname, reader=rd, doc_cache=cache)
    lfs = list(leaves(t))
    if not lfs or not isinstance(lfs[0].paint, Solid) or lfs[0].paint.rgb != (float(r), float(gg), float(b)):
        return gname, "repainted"
    return gname, None


def judge_api(case, v):
    from nanoemoji.glyph import glyph_name

    cps = case["cps"]
    srcs = [{"svg": good_svg(i), "cps": [c]} for i, c in enumerate(cps)]
    dup = {"svg": good_svg(len(cps)), "cps": [cps[0]]}
    if case["pos"] % 2 == 1:
        # the same glyph *name* for another codepoint sequence (what a careless glyph-map generator produces)
        srcs[0]["name"] = "shared_name"
        dup = {"svg": good_svg(len(cps)), "cps": [0x1F6AA], "name": "shared_name"}
        v.cls("api:same-name-other-codepoints")
    srcs.insert(min(case["pos"], len(srcs)), dup)
    for s_ in srcs:  # the API takes picosvg normal form, which always has a <defs/>
        s_["svg"] = s_["svg"].replace('viewBox="0 0 100 100">', 'viewBox="0 0 100 100"><defs/>', 1)
    fmt = case["fmt"]
    if fmt in ("cbdt", "sbix"):
        fmt = "glyf_colr_1"
    r = build.build_font({"color_format": fmt, "keep_glyph_names": True}, srcs)
    if r.error is not None:
        v.rejected = "raises " + type(r.error).__name__
        return
    font = r.font
    rd = ColrReader(font) if "COLR" in font else None
    reached = set()
    n_ok = 0
    for i, c in enumerate(cps + [cps[0]]):
        g = shape(font, [c])
        if g and len(g) == 1:
            reached.add(g[0])
    v.fail("duplicate-input-merged", "api:" + fmt, {"inputs": len(srcs), "distinct glyphs reachable": len(reached), "detail": "two inputs with one codepoint sequence were accepted"})


def judge(case):
    from fontTools.ttLib import TTFont

    v = Verdict()
    d = case["defect"]
    fmt = case["fmt"]
    v.cls("defect:" + d, "fmt:" + fmt)
    v.nontrivial = len(case["cps"]) >= 2 and case["pos"] > 0
    if d == "api_dup_name":
        judge_api(case, v)
        return v
    with Workspace("c17") as ws:
        ws.shims()
        if d == "masters_mismatch":
            mm = case.get("mm") or {"masters": 2, "which": 1, "kind": "swap"}
            v.cls("masters:%d" % mm["masters"], "mismatch:%s@%d" % (mm["kind"], mm["which"]))
            toml = 'output_file = "VF.ttf"\ncolor_format = "glyf_colr_1"\n[axis.wght]\nname = "Weight"\ndefault = 400\n'
            for mi in range(mm["masters"]):
                names = list(case["cps"])
                if mi == mm["which"]:
                    # one master's set of source names deviates: another name, one more, or one fewer
                    names = {"swap": names[:-1] + [0x1F6B0], "extra": names + [0x1F6B0], "missing": names[:-1]}[mm["kind"]]
                for i, c in enumerate(names):
                    ws.write("m%d/%s" % (mi, fname([c])), good_svg(i))
                toml += '[master.m%d]\nstyle_name = "M%d"\nsrcs = ["m%d/*.svg"]\n[master.m%d.position]\nwght = %d\n' % (mi, mi, mi, mi, 400 + 150 * mi)
            ws.write("vf.toml", toml)
            args = ["nanoemoji", "--build_dir", "build", "vf.toml"]
            files = []
        else:
            files, extra = plant(case)
            where = lambda name: ("srcb/" + name[3:]) if name.startswith("@b/") else ("src/" + name)
            for name, text, _, _ in files:
                ws.write(where(name), text)
            args = ["nanoemoji", "--build_dir", "build", "--color_format", fmt, "--keep_glyph_names"] + extra
            if fmt in ("cbdt", "sbix") and not extra:
                args += ["--bitmap_resolution", "32"]
            args += [where(f[0]) for f in files]
        t0 = time.time()
        rc, out = ws.run(args, ninja_j=4)
        fonts = [f for f in fonts_in(ws.path("build")) if not f.endswith(".ufo")]
        if rc != 0:
            fresh = [f for f in fonts if os.path.getmtime(f) >= t0 - 1]
            if fresh:
                v.fail("font-written-by-failed-build", d, {"fonts": [os.path.basename(f) for f in fresh], "out": tail(out, 4)})
            else:
                v.rejected = "exit %d" % rc
            return v
        # exit 0: the font must still carry every source on its own
        if not fonts:
            v.fail("exit0-without-font", d, {"out": tail(out, 4)})
            return v
        font = TTFont(fonts[0], lazy=False)
        if d in ("masters_mismatch", "cbdt_too_big"):
            v.fail("defect-accepted", d, {"out": tail(out, 4)})
            return v
        rd = ColrReader(font) if "COLR" in font else None
        cache = {}
        seen = {}
        problems = []
        for name, text, cps, si in files:
            if cps is None:
                problems.append({"file": name, "problem": "unusable source accepted (exit 0): it is either missing from the font or drawn with substituted paint"})
                continue
            gname, why = artwork_ok(font, cps, si, fmt, rd, cache)
            if why:
                problems.append({"file": name, "problem": why, "glyph": gname})
            elif gname in seen:
                problems.append({"file": name, "problem": "merged with " + seen[gname], "glyph": gname})
            else:
                seen[gname] = name
        if problems:
            v.fail("wrong-font-emitted", d, {"problems": problems, "format": fmt, "files": [f[0] for f in files]})
    return v
