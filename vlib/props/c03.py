"""C03 – COLRv0 and glyf builds lose only what those formats cannot express."""
from fontTools.pens.recordingPen import DecomposingRecordingPen
from hypothesis import strategies as st

from .. import build
from ..display import FG, Budget, Group, Leaf, Solid, leaves
from ..gen_cfg import COLR0
from ..geom import I, anorm, area, bbox, exact_bounds, flatten_segments, hausdorff, segments
from ..ref_colr import BadCOLR, ColrReader
from ..vecoracle import Ref, advance_ok, case_classes, reach, to_build_sources
from ..verdict import Verdict
from . import c01

ID = "C03"
LEVEL = "exploration"
RULE = (
    "C01's generator over {glyf, glyf_colr_0, cff_colr_0, cff2_colr_0}; half of the cases use a solid-only, group-free sub-generator "
    "(alpha through opacity and #rrggbbaa, currentColor, palette variables). Image clause (solid-only sources, COLRv0): the layers read "
    "from the binary are, in z-order, one per source shape with the shape's outline (distance <= tau), colour and alpha (CPAL entry), and "
    "the base glyph's own bounds contain every layer's bounds within 1 unit. Any source: the multiset of placed outlines (COLRv0 layer "
    "glyphs / contours of the plain glyph after decomposing components) matches the multiset of source outlines one-to-one within tau, "
    "zero-area contours (extent marker) ignored, nothing else unmatched. Non-trivial: >= 2 layers and (palette alpha < 1, or a composite / "
    "transformed layer glyph from reuse, or a nested group)."
)
ASSUMPTIONS = ["fontTools decompiles COLR v0/CPAL/glyf/CFF correctly", "reference SVG interpreter"]
BUDGET = {"quick": 640, "thorough": 24000}
TIMEOUT = {"quick": 900, "thorough": 7200}
FORMATS = ["glyf"] + COLR0


def setup_worker():
    build.init()


def cases(tier):
    return st.one_of(
        c01.vector_case(FORMATS, tier, solid_only=True, allow_groups=False),
        c01.vector_case(FORMATS, tier, solid_only=True, allow_groups=False),
        c01.vector_case(FORMATS, tier),
        c01.vector_case(FORMATS, tier),
        c01.grid_case(FORMATS, tier),
        c01.sandwich_case(FORMATS, tier),
    )


def enumerate_cases(tier):
    yield from c01.css_name_rows(["glyf", "glyf_colr_0", "cff_colr_0"])
    yield from c01.origin_rows(["glyf", "glyf_colr_0"])


shrink = c01.shrink
sample_repr = c01.sample_repr


def _contours_of(font, gs, gname):
    rp = DecomposingRecordingPen(gs)
    gs[gname].draw(rp)
    return segments(rp.value)


def _comp_norm(font, gname):
    """Largest operator norm of a component transform used by glyph gname (TrueType only), else None."""
    if "glyf" not in font:
        return None
    g = font["glyf"][gname]
    if not g.isComposite():
        return 1.0
    n = 1.0
    for c in g.components:
        t = getattr(c, "transform", None)
        if t is not None:
            n = max(n, anorm((t[0][0], t[0][1], t[1][0], t[1][1], 0, 0)))
    return n


def match_contours(impl, ref, tau):
    """Greedy one-to-one matching of flattened contours by Hausdorff distance. Returns (unmatched_impl, unmatched_ref, worst)."""
    pairs = []
    for i, a in enumerate(impl):
        ba = bbox([a])
        for j, b in enumerate(ref):
            bb = bbox([b])
            if abs(ba[0] - bb[0]) > tau or abs(ba[1] - bb[1]) > tau or abs(ba[2] - bb[2]) > tau or abs(ba[3] - bb[3]) > tau:
                continue
            d = hausdorff([a], [b], good=tau * 0.05)
            if d <= tau:
                pairs.append((d, i, j))
    pairs.sort()
    ui, uj = set(range(len(impl))), set(range(len(ref)))
    worst = 0.0
    for d, i, j in pairs:
        if i in ui and j in uj:
            ui.discard(i)
            uj.discard(j)
            worst = max(worst, d)
    return sorted(ui), sorted(uj), worst


def judge(case):
    v = Verdict()
    cfg = case["cfg"]
    fmt = cfg["color_format"]
    case_classes(case, v)
    srcs = to_build_sources(case)
    refs = [Ref(s["svg"], cfg) for s in srcs]
    if max([rf.max_coord() for rf in refs] + [0.0]) > c01.DOMAIN_COORD:
        # outside what OpenType outlines can express at all (glyf stores int16 *deltas*: an extent > 32767 cannot be encoded)
        v.discard = "reference geometry beyond %d font units" % c01.DOMAIN_COORD
        return v
    r = build.build_font(cfg, srcs)
    if r.error is not None:
        if isinstance(r.error, ValueError) and "already maps to" in str(r.error) and "colr_0" in fmt:
            # COLRv0 keeps alpha in the palette entry: one palette variable used with two opacities is a conflict (C15)
            v.rejected = "ValueError(palette index declared with two alphas, COLRv0)"
            return v
        c01.judge_rejection(v, r, refs, cfg)
        return v
    font = r.font
    gs = font.getGlyphSet()
    cff = fmt.startswith("cff")
    is_v0 = "colr_0" in fmt
    if is_v0 and "COLR" not in font:
        if all(not rf.tree for rf in refs):
            v.discard = "nothing painted"
            return v
        v.fail("no-colr", "table", {})
        return v
    rd = ColrReader(font) if is_v0 else None
    if is_v0 and font["COLR"].version != 0:
        v.fail("colr-version", "COLR version %d for a colr_0 build" % font["COLR"].version, {})
        return v
    nlayers_total = 0
    interesting = False
    for i, (s, rf) in enumerate(zip(srcs, refs)):
        gname, why = reach(font, s["cps"])
        if gname is None:
            v.fail("unreachable", why, {"source": i, "cps": s["cps"]})
            continue
        adv = font["hmtx"][gname][0]
        if not advance_ok(cfg, rf.vb, adv):
            v.fail("advance", "advance-rule", {"source": i, "got": adv})
        ref_leaves = list(leaves(rf.tree))
        has_group = any(isinstance(n, Group) for n in rf.tree)
        solid_only = all(isinstance(lf.paint, Solid) for lf in ref_leaves) and not has_group
        base_tau = Budget("colr", cfg["upem"], cfg["reuse_tolerance"], rf.scale * rf.user_norm, cff=cff)
        if is_v0:
            try:
                impl = rd.tree(gname)
            except BadCOLR as e:
                v.fail("bad-colr", e.kind, {"source": i, "msg": str(e)})
                continue
            nlayers_total += len(impl)
            norms = []
            for lf in impl:
                n = _comp_norm(font, lf.tag)
                norms.append(n if n is not None else 4.0)
                if n is not None and n != 1.0 or ("glyf" in font and font["glyf"][lf.tag].isComposite()):
                    interesting = True
                    v.cls("v0:composite-layer")
            if solid_only:
                # image clause: ordered, with colours
                if len(impl) != len(ref_leaves):
                    v.fail("COUNT", "v0-layers", {"source": i, "impl": len(impl), "ref": len(ref_leaves)})
                    continue
                for k, (a, b) in enumerate(zip(impl, ref_leaves)):
                    tau = base_tau.tau(norms[k])
                    if not a.contours or not b.contours:
                        bb_ = bbox(a.contours or b.contours)
                        if bb_ is None or max(bb_[2] - bb_[0], bb_[3] - bb_[1]) <= 2 * tau:
                            continue  # collapsed under quantisation (smaller than the tolerance)
                    d = hausdorff(a.contours, b.contours, good=tau * 0.05)
                    v.margin = max(v.margin, min(d / tau, 50.0))
                    if d > tau:
                        v.fail("OUTLINE", "v0-layer-order-or-position", {"source": i, "layer": k, "dist": d, "tau": tau, "impl_bbox": bbox(a.contours), "ref_bbox": bbox(b.contours)})
                        continue
                    pa, pb = a.paint, b.paint
                    if pa.rgb != pb.rgb:
                        v.fail("SOLID", "v0-colour", {"source": i, "layer": k, "impl": repr(pa), "ref": repr(pb)})
                    elif pb.rgb != FG and abs(pa.alpha - pb.alpha) > 1.6 / 255:
                        v.fail("ALPHA", "v0-palette-alpha", {"source": i, "layer": k, "impl": repr(pa), "ref": repr(pb)})
                    if pb.alpha < 1 and pb.rgb != FG:
                        interesting = True
                        v.cls("v0:palette-alpha")
                    if pb.pidx is not None and pa.pidx != pb.pidx:
                        v.fail("PALETTEINDEX", "v0", {"source": i, "layer": k, "impl": pa.pidx, "want": pb.pidx})
                # base glyph bounds cover all layers
                base = exact_bounds(_contours_of(font, gs, gname))
                for k, a in enumerate(impl):
                    lb = a.bounds
                    if lb is None or lb[2] - lb[0] <= 0 or lb[3] - lb[1] <= 0:
                        continue  # a layer that collapsed to a point or a line paints nothing
                    e = (0.71 + 0.001 * cfg["upem"]) * max(1.0, norms[k]) + 1.0  # C05's allowance for a compiled, transformed outline
                    if base is None and max(lb[2] - lb[0], lb[3] - lb[1]) <= e:
                        continue  # no extents were drawn because the quantised bounds have no area: the layer is below the allowance itself
                    if base is None or lb[0] < base[0] - e or lb[1] < base[1] - e or lb[2] > base[2] + e or lb[3] > base[3] + e:
                        v.fail("base-bounds", "base glyph bounds do not cover a layer", {"source": i, "layer": k, "base": base, "layer_bounds": lb})
                        break
            # any source: multiset matching of outlines (layers as wholes)
            impl_cs = [c for lf in impl for c in lf.contours if abs(area([c])) > 1e-6]
            ref_cs = [c for lf in ref_leaves for c in lf.contours if abs(area([c])) > 1e-6]
            tau = base_tau.tau(max(norms + [1.0]))
        else:
            segs = _contours_of(font, gs, gname)
            impl_cs = [c for c in flatten_segments(segs) if abs(area([c])) > 1e-6]
            ref_cs = [c for lf in ref_leaves for c in lf.contours if abs(area([c])) > 1e-6]
            n = _comp_norm(font, gname)
            nlayers_total += len(ref_leaves)
            if "glyf" in font and font["glyf"][gname].isComposite():
                v.cls("glyf:composite")
                interesting = True
            tau = base_tau.tau(n if n is not None else 4.0)
        # tiny contours (below the quantisation) may legitimately collapse; ignore those on both sides
        # ... and so may slivers: a contour whose mean width (2 x area / longest extent) is below the quantisation collapses
        # onto a line when its corners are rounded to the unit grid, however long it is (A45)
        def tiny(c):
            bb = bbox([c])
            ext = max(bb[2] - bb[0], bb[3] - bb[1])
            return ext <= 2 * tau or 2.0 * abs(area([c])) / ext <= tau
        ui, uj, worst = match_contours(impl_cs, ref_cs, tau)
        ui = [k for k in ui if not tiny(impl_cs[k])]
        uj = [k for k in uj if not tiny(ref_cs[k])]
        v.margin = max(v.margin, min(worst / tau, 50.0))
        if ui:
            v.fail("extra-geometry", "placed outline without a source outline", {"source": i, "n": len(ui), "bbox": bbox([impl_cs[ui[0]]]), "tau": tau})
        if uj:
            v.fail("missing-geometry", "source outline not placed", {"source": i, "n": len(uj), "bbox": bbox([ref_cs[uj[0]]]), "tau": tau})
        if has_group:
            interesting = True
    v.nontrivial = nlayers_total >= 2 and interesting
    return v
