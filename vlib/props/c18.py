"""C18 – a variable colour font reproduces each master at its location."""
import math
import os

from hypothesis import strategies as st

from .. import build
from ..cli import Workspace, fonts_in, tail
from ..display import Budget, Grad, leaves
from ..ref_colr import BadCOLR, ColrReader, UnsupportedPaint
from ..shaper import shape
from ..vecoracle import compare_trees
from ..verdict import Verdict

ID = "C18"
LEVEL = "exploration"
RULE = (
    "Hypothesis draws 2-3 masters on one axis (axis range, master positions and which master is the default are drawn) or, in half of the cases, 3-4 masters on "
    "two axes (one at both defaults, the others off the default on one axis, each free to leave out the axis it sits at the default of; listing order drawn), 1-3 glyphs of 1-3 shapes each "
    "from one shared structure (same polygon vertex counts, paint kinds, stops and colours; shapes pairwise non-congruent so that reuse decisions "
    "agree) with per-master vertex coordinates, gradient end points / circles and therefore bounds; metrics are drawn. The real CLI builds the "
    "variable font from a TOML and, separately, one static font per master. Oracle: at every master location the variable font's display tree "
    "(outlines through gvar, PaintVar* fields and ClipBox format 2 through our own VarStore evaluation) == the static build's tree (layer-wise, 1.5 "
    "unit extra budget for delta rounding) and the advances are equal; with no location the font equals the default master; at 5 further "
    "locations per axis (and one off both axes) the clip box in force contains the exact bounds of every outline at that location. Non-trivial: masters differ in an outline "
    "coordinate and in a gradient coordinate (the COLR VarStore is non-empty)."
)
ASSUMPTIONS = ["fontTools glyph set interpolation (gvar/HVAR) and VarStoreInstancer are correct", "masters are compatible by construction; incompatible builds are discards"]
BUDGET = {"quick": 16, "thorough": 200}
TIMEOUT = {"quick": 1500, "thorough": 7200}


def setup_worker():
    build.init()


@st.composite
def vf_case(draw, tier, two_axes=False):
    nm = draw(st.integers(2, 3))
    positions = sorted(draw(st.lists(st.integers(100, 900), min_size=nm, max_size=nm, unique=True)))
    if draw(st.sampled_from([False, False, False, True])):
        # design-space coordinates need not be integers (wdth 62.5, opsz 10.5 ...)
        positions = [p + draw(st.sampled_from([0.0, 0.5, 0.25])) for p in positions]
    default_idx = draw(st.integers(0, nm - 1))
    mpos = None
    if two_axes:
        # wght x wdth: one master at the default of both axes, every other master off the default on exactly one axis; a master
        # may leave out the axis it is at the default of (the TOML allows it)
        w0, d0 = draw(st.sampled_from([400, 300])), draw(st.sampled_from([100, 90]))
        w1, d1 = draw(st.sampled_from([700, 900])), draw(st.sampled_from([75, 50, 125, 62.5, 112.5]))
        mpos = [{"wght": w0, "wdth": d0}, {"wght": w1, "wdth": d0}, {"wght": w0, "wdth": d1}]
        if draw(st.booleans()):
            mpos.append({"wght": draw(st.sampled_from([100, 200])), "wdth": d0})
        nm = len(mpos)
        default_idx = 0
        positions = [m["wght"] for m in mpos]
    upem = draw(st.sampled_from([1000, 1024, 2048]))
    asc = draw(st.integers(int(0.7 * upem), int(0.95 * upem)))
    desc = -draw(st.integers(int(0.05 * upem), int(0.3 * upem)))
    width = draw(st.sampled_from([0, asc - desc, int(1.2 * upem)]))
    ng = draw(st.integers(1, 3))
    glyphs = []
    nverts_used = set()
    # full-bleed artwork in one master that is not the default one: the first shape of the first glyph fills the whole glyph
    # cell there (a quadrilateral elsewhere), so that this master's bounds - and clip box - are the largest on the axis
    others = [m for m in range(nm) if m != default_idx]
    bleed = draw(st.sampled_from([None, None] + others))
    for gi in range(ng):
        shapes = []
        for si in range(draw(st.integers(1, 3))):
            k = 4 if (bleed is not None and gi == 0 and si == 0) else draw(st.integers(3, 9).filter(lambda x: x not in nverts_used and not (bleed is not None and x == 4)))
            nverts_used.add(k)
            kind = draw(st.sampled_from(["solid", "solid", "lin", "rad"]))
            color = "#%06x" % draw(st.integers(0, 0xFFFFFF))
            stops = [[0.0, "#%06x" % draw(st.integers(0, 0xFFFFFF))], [draw(st.sampled_from([0.4, 0.5, 0.7])), "#%06x" % draw(st.integers(0, 0xFFFFFF))], [1.0, "#%06x" % draw(st.integers(0, 0xFFFFFF))]]
            per_master = []
            cx0, cy0 = draw(st.floats(25, 75)), draw(st.floats(25, 75))
            ph = draw(st.floats(0, 6.28))
            for m in range(nm):
                cx, cy = cx0 + draw(st.floats(-8, 8)), cy0 + draw(st.floats(-8, 8))
                radii = [draw(st.floats(8, 22)) for _ in range(k)]
                pts = [[round(cx + radii[i] * math.cos(ph + 2 * math.pi * i / k), 2), round(cy + radii[i] * math.sin(ph + 2 * math.pi * i / k), 2)] for i in range(k)]
                if bleed == m and gi == 0 and si == 0:
                    pts = [[0.0, 0.0], [100.0, 0.0], [100.0, 100.0], [0.0, 100.0]]
                geo = {"x1": round(cx - draw(st.floats(5, 20)), 2), "y1": round(cy - draw(st.floats(-10, 10)), 2), "x2": round(cx + draw(st.floats(5, 20)), 2), "y2": round(cy + draw(st.floats(-10, 10)), 2),
                       "cx": round(cx, 2), "cy": round(cy, 2), "r": round(draw(st.floats(10, 25)), 2)}
                per_master.append({"pts": pts, "geo": geo})
            shapes.append({"kind": kind, "color": color, "stops": stops, "masters": per_master, "spread": draw(st.sampled_from(["pad", "reflect"]))})
        glyphs.append({"cps": [0x1F600 + gi], "shapes": shapes})
    order = draw(st.permutations(list(range(nm))))
    names = draw(st.permutations(["zeta", "alpha", "mid", "omega"]))[:nm]
    case = {"order": list(order), "names": list(names), "positions": positions, "default": default_idx, "metrics": {"upem": upem, "ascender": asc, "descender": desc, "width": width}, "glyphs": glyphs,
            "clipbox_quantization": draw(st.sampled_from([None, None, 1, 10]))}
    if mpos:
        case["mpos"] = mpos
        case["names"] = ["regular", "bold", "condensed", "thin"][:nm]
        # the tool finds the default master by asking every master listed before it for all its positions: positions can only
        # be left out by masters listed after the default master (anything else is refused, see judge)
        omitting = draw(st.sampled_from([False, False, True]))
        case["omit_default_axes"] = [False] + [omitting and draw(st.booleans()) for _ in range(nm - 1)]
        if any(case["omit_default_axes"]):
            case["order"] = [0] + list(draw(st.permutations(list(range(1, nm)))))
        else:
            # any listing order: the default master is found by its position on *all* axes, wherever it is listed
            case["order"] = list(draw(st.permutations(list(range(nm)))))
    return case


def cases(tier):
    return st.one_of(vf_case(tier), vf_case(tier, two_axes=True))


def _num(x):
    return "%d" % x if float(x).is_integer() else repr(float(x))


def svg_for(glyph, m):
    defs, body = "", ""
    for si, s in enumerate(glyph["shapes"]):
        pm = s["masters"][m]
        d = "M" + " L".join("%s,%s" % (p[0], p[1]) for p in pm["pts"]) + " Z"
        if s["kind"] == "solid":
            fill = s["color"]
        else:
            gid = "g%d" % si
            stops = "".join('<stop offset="%s" stop-color="%s"/>' % (o, c) for o, c in s["stops"])
            sp = "" if s["spread"] == "pad" else ' spreadMethod="%s"' % s["spread"]
            g = pm["geo"]
            if s["kind"] == "lin":
                defs += '<linearGradient id="%s" gradientUnits="userSpaceOnUse" x1="%s" y1="%s" x2="%s" y2="%s"%s>%s</linearGradient>' % (gid, g["x1"], g["y1"], g["x2"], g["y2"], sp, stops)
            else:
                defs += '<radialGradient id="%s" gradientUnits="userSpaceOnUse" cx="%s" cy="%s" r="%s"%s>%s</radialGradient>' % (gid, g["cx"], g["cy"], g["r"], sp, stops)
            fill = "url(#%s)" % gid
        body += '<path d="%s" fill="%s"/>' % (d, fill)
    return '<svg xmlns="http://www.w3.org/2000/svg" viewBox="0 0 100 100"><defs>%s</defs>%s</svg>' % (defs, body)


def fname(cps):
    return "emoji_u" + "_".join("%04x" % c for c in cps) + ".svg"


def judge(case):
    from fontTools.ttLib import TTFont

    v = Verdict()
    nm = len(case["positions"])
    pos = case["positions"]
    mt = case["metrics"]
    v.cls("masters:%d" % nm, "default:%s" % ("first" if case["default"] == 0 else "last" if case["default"] == nm - 1 else "middle"))
    grad = any(s["kind"] != "solid" for g in case["glyphs"] for s in g["shapes"])
    v.nontrivial = grad
    common = ["upem = %d" % mt["upem"], "ascender = %d" % mt["ascender"], "descender = %d" % mt["descender"], "width = %d" % mt["width"], 'color_format = "glyf_colr_1"', "keep_glyph_names = true"]
    if case["clipbox_quantization"]:
        common.append("clipbox_quantization = %d" % case["clipbox_quantization"])
    with Workspace("c18") as ws:
        ws.shims()
        for m in range(nm):
            for g in case["glyphs"]:
                ws.write("m%d/%s" % (m, fname(g["cps"])), svg_for(g, m))
        mpos = case.get("mpos") or [{"wght": p} for p in pos]
        axes = list(mpos[0])
        dflt = mpos[case["default"]]
        toml = common + ['output_file = "VF.ttf"']
        for a in axes:
            toml += ["[axis.%s]" % a, 'name = "%s"' % {"wght": "Weight", "wdth": "Width"}[a], "default = %s" % _num(dflt[a])]
        names = case.get("names") or ["m%d" % i for i in range(nm)]
        omit = case.get("omit_default_axes") or [False] * nm
        if len(axes) > 1:
            v.cls("axes:2", "omitted-default-position" if any(omit) else "all-positions-given")
        for m in case.get("order") or range(nm):  # file order, name order and position order are independent
            toml += ["[master.%s]" % names[m], 'style_name = "M%d"' % m, 'srcs = ["m%d/*.svg"]' % m, "[master.%s.position]" % names[m]]
            given = [a for a in axes if not (omit[m] and mpos[m][a] == dflt[a])] or axes[:1]
            toml += ["%s = %s" % (a, _num(mpos[m][a])) for a in given]
        ws.write("vf.toml", "\n".join(toml) + "\n")
        rc, out = ws.run(["nanoemoji", "--build_dir", "build_vf", "vf.toml"], ninja_j=4)
        if rc != 0:
            if "incompatible" in out.lower() or "not compatible" in out.lower() or "VarLibMergeError" in out or "InvalidFontData" in out:
                v.discard = "masters incompatible"
                v.extra["discard_detail:" + tail(out, 1)[:60]] = 1
                return v
            if any(omit) and "Unable to find 1 position" in out:
                # leaving out the position on an axis is not documented; the tool accepts it only in some master orders and
                # refuses it cleanly otherwise - a refusal is fine, only an accepted configuration is judged
                v.rejected = "omitted axis position refused"
                return v
            v.fail("vf-build-failed", tail(out, 1)[:50], {"out": tail(out, 14)})
            return v
        vf = TTFont(ws.path("build_vf", "VF.ttf"), lazy=False)
        if "fvar" not in vf:
            v.fail("no-fvar", "fvar", {})
            return v
        for ax in vf["fvar"].axes:
            vals = [mp.get(ax.axisTag) for mp in mpos]
            want = (min(vals), dflt[ax.axisTag], max(vals)) if None not in vals else None
            if (ax.minValue, ax.defaultValue, ax.maxValue) != want:
                v.fail("axis-range", "fvar", {"axis": ax.axisTag, "got": (ax.minValue, ax.defaultValue, ax.maxValue), "want": want})
        if sorted(a.axisTag for a in vf["fvar"].axes) != sorted(axes):
            v.fail("axis-range", "fvar axes", {"got": [a.axisTag for a in vf["fvar"].axes], "want": axes})
        statics = []
        for m in range(nm):
            toml = common + ['output_file = "S%d.ttf"' % m, "[axis.wght]", 'name = "Weight"', "default = 400", "[master.r]", 'style_name = "R"', 'srcs = ["m%d/*.svg"]' % m, "[master.r.position]", "wght = 400"]
            ws.write("s%d.toml" % m, "\n".join(toml) + "\n")
            rc, out = ws.run(["nanoemoji", "--build_dir", "build_s%d" % m, "s%d.toml" % m], ninja_j=4)
            if rc != 0:
                v.fail("static-build-failed", "master", {"out": tail(out, 8)})
                return v
            statics.append(TTFont(ws.path("build_s%d" % m, "S%d.ttf" % m), lazy=False))
        varstore = getattr(vf["COLR"].table, "VarStore", None) is not None
        if grad and varstore:
            v.cls("colr-varstore")
        bud = Budget("colr", mt["upem"], 0.1, (mt["ascender"] - mt["descender"]) / 100.0, extra_tau=1.5, symmetric=True)
        locs = [(dict(mpos[m]), m) for m in range(nm)] + [(None, case["default"])]
        for loc, m in locs:
            rd_v = ColrReader(vf, location=loc)
            rd_s = ColrReader(statics[m])
            gs_v = rd_v.gs
            for g in case["glyphs"]:
                gv, gs_ = shape(vf, g["cps"]), shape(statics[m], g["cps"])
                if not gv or not gs_ or len(gv) != 1 or len(gs_) != 1:
                    v.fail("unreachable", "cmap", {"cps": g["cps"]})
                    continue
                try:
                    tv, ts = rd_v.tree(gv[0]), rd_s.tree(gs_[0])
                except (BadCOLR, UnsupportedPaint) as e:
                    v.fail("bad-colr", getattr(e, "kind", "unsupported"), {"msg": str(e)})
                    continue
                res, margin = compare_trees(tv, ts, bud)
                v.margin = max(v.margin, margin if not res else 0.0)
                for kind, path, detail in res[:2]:
                    v.fail(kind, ("default-location" if loc is None else "master-location"), {"master": m, "location": loc, "glyph": g["cps"], "path": path, "detail": detail})
                adv_v = gs_v[gv[0]].width
                adv_s = statics[m]["hmtx"][gs_[0]][0]
                if abs(adv_v - adv_s) > 0.51:
                    v.fail("advance", "vf advance != static advance", {"master": m, "vf": adv_v, "static": adv_s})
                bv, bs = rd_v.clipbox(gv[0]), rd_s.clipbox(gs_[0])
                if (bv is None) != (bs is None) or (bv and any(abs(a - b) > 1.01 for a, b in zip(bv, bs))):
                    v.fail("clipbox-at-master", "clip box at the master location differs from the static build", {"master": m, "vf": bv, "static": bs})
        # clip box contains the interpolated geometry along the axis
        probes = []
        for a in axes:
            lo, hi = min(mp[a] for mp in mpos), max(mp[a] for mp in mpos)
            probes += [dict(dflt, **{a: lo + (hi - lo) * k / 6.0}) for k in range(1, 6)]
        if len(axes) > 1:  # and off both axes at once
            probes += [{a: (min(mp[a] for mp in mpos) + max(mp[a] for mp in mpos)) / 2.0 for a in axes}]
        for w in probes:
            rd = ColrReader(vf, location=w)
            for g in case["glyphs"]:
                gv = shape(vf, g["cps"])
                if not gv or len(gv) != 1:
                    continue
                box = rd.clipbox(gv[0])
                for lf in leaves(rd.tree(gv[0])):
                    b = lf.bounds
                    if b is None:
                        continue
                    if box is None:
                        v.fail("clipbox-missing", "at location", {"location": w})
                        break
                    eps = (0.71 + 0.001 * mt["upem"]) + 1.5
                    prot = max(box[0] - b[0], box[1] - b[1], b[2] - box[2], b[3] - box[3])
                    if prot > eps:
                        v.fail("clipbox-cuts-interpolated", "clip box at an intermediate location does not contain the geometry", {"location": w, "box": box, "bounds": b, "protrusion": prot})
                        break
    return v
