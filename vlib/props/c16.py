"""C16 – specialised transform paints denote exactly the affine they replace."""
import math
from collections import OrderedDict

from hypothesis import strategies as st

from .. import build
from ..display import Budget, Grad, Solid, color_range, leaves
from ..geom import I, aapply, adet, ainv, amul, anorm
from ..minifont import make_font
from ..ref_colr import ColrReader, paint_matrix
from ..verdict import Verdict

ID = "C16"
LEVEL = "exploration"
RULE = (
    "Hypothesis draws 2x3 affines from a mixture aimed at every branch boundary of the encoder (exact/near-integer translations "
    "inside and outside int16, axis scales at the F2Dot14 limits, scale+translate with an integral or non-integral centre and s "
    "within 1e-12..1e-3 of 1, mixed signs, shear, rotation, near-singular, entries up to 1e6) and linear/radial gradient geometries. "
    "Oracles: (1) paint.transformed(A): every emitted field is quantised as its OpenType type, the affine is rebuilt from the COLR "
    "spec formula and must equal A over a probe box within the propagated quantisation bound; gettransform()==A; (2) the same paint "
    "compiled into a real COLR table and decompiled must place a square's corners within that bound, or the build must raise when a "
    "field is out of range, and nanoemoji's decoder (Paint.from_ot(...).gettransform()) must read the compiled paint as the matrix the COLR spec gives it; (3) _decompose_uniform_transform: uniform part is a uniform scale+translate and uniform o residual == A; "
    "(4) gradient.apply_transform(A) compiled into a font: colour at A.q equals the original's colour at q (interval oracle), "
    "out-of-range geometry raises; (5) ~1 % of the cases are whole COLRv1 builds in which a gradient-filled shape is a 3-130x smaller copy of "
    "an earlier shape placed so that mapping the gradient by the inverse reuse transform leaves int16 (the write_font.py anchor: the "
    "encoder must pick the wider encoding, a wrapping transform) - judged by C01's display-tree oracle. Non-trivial: within 1e-6 relative of a branch boundary or beyond a range limit, or a gradient with "
    "a non-similarity transform; distinct by SHA-1."
)
ASSUMPTIONS = ["fontTools compiles/decompiles COLR paints faithfully", "probe box is +-2048 units"]
BUDGET = {"quick": 24000, "thorough": 1000000}
TIMEOUT = {"quick": 900, "thorough": 7200}

PROBES = [(0.0, 0.0), (1000.0, 0.0), (0.0, 1000.0), (-2000.0, 1500.0), (2048.0, -2048.0), (333.3, 777.7)]
SQ = [(100, 100), (100, 500), (600, 500), (600, 100)]
F2MAX = 1.99993896484375


def setup_worker():
    build.init()


fl = st.floats
AFF_KINDS = ["int_t", "near_int_t", "frac_t", "big_t", "scale", "scale_lim", "scale_t_int", "scale_t_frac", "scale_t_uniform",
             "scale_t_near1", "scale_t_dyadic", "scale_t_int_big", "one_axis_scale_shift", "mixed", "shear", "rot", "sing", "huge", "identityish"]


@st.composite
def affine(draw, kinds=AFF_KINDS):
    k = draw(st.sampled_from(kinds))
    r0 = lambda a, b: round(draw(fl(a, b, allow_nan=False, allow_infinity=False)), 9)

    def r(a, b):
        # scale-like ranges: keep away from 0 (a 1e-80 scale is a singular matrix in all but name)
        x = r0(a, b)
        if a < 0 < b and max(abs(a), abs(b)) <= 3 and abs(x) < 0.01:
            x = 0.01 if x >= 0 else -0.01
        return x

    ri = lambda a, b: draw(st.integers(a, b))
    if k == "int_t":
        return k, [1, 0, 0, 1, ri(-40000, 40000), ri(-40000, 40000)]
    if k == "near_int_t":
        return k, [1, 0, 0, 1, ri(-3000, 3000) + draw(st.sampled_from([1e-12, -1e-10, 1e-7, -1e-5, 0.5, 0.4999999])), ri(-3000, 3000)]
    if k == "frac_t":
        return k, [1, 0, 0, 1, r0(-3000, 3000), r0(-3000, 3000)]
    if k == "big_t":
        return k, [1, 0, 0, 1, r(-70000, 70000), r(-70000, 70000)]
    if k == "scale":
        return k, [r(-2.2, 2.2), 0, 0, r(-2.2, 2.2), 0, 0]
    if k == "scale_lim":
        vals = [-2.0, F2MAX, 1.99994, 2.0, -2.00001, 1.0, 0.5, 1 + 1e-10, -1.0, F2MAX + 1e-9, 1.99997]
        return k, [draw(st.sampled_from(vals)), 0, 0, draw(st.sampled_from(vals)), 0, 0]
    if k in ("scale_t_int", "scale_t_uniform"):
        sx = r(-1.9, 1.9)
        sy = sx if k == "scale_t_uniform" else r(-1.9, 1.9)
        cx, cy = ri(-40000, 40000) if draw(st.integers(0, 9)) == 0 else ri(-2000, 2000), ri(-2000, 2000)
        return k, [sx, 0, 0, sy, (1 - sx) * cx, (1 - sy) * cy]
    if k == "scale_t_int_big":
        # scale about an integral centre with a factor outside F2DOT14 on at least one axis: the scale-around-centre encodings
        # cannot hold it, the general matrix (16.16) can
        big = [2.0, 2.5, 3.0, 4.0, -2.5, -3.0, 8.0, F2MAX + 1e-9]
        small = [0.5, 1.5, -1.0, 1.0, 1.99]
        sx = draw(st.sampled_from(big))
        sy = draw(st.sampled_from(big + small + [sx, sx]))
        if draw(st.booleans()):
            sx, sy = sy, sx
        cx, cy = ri(-2000, 2000), ri(-2000, 2000)
        return k, [sx, 0, 0, sy, (1 - sx) * cx, (1 - sy) * cy]
    if k == "scale_t_dyadic":
        dy_ = [0.5, 0.75, 0.25, 1.5, -0.5, -1.0, 1.25, 1.75, 0.875, 1.0]
        sx, sy = draw(st.sampled_from(dy_)), draw(st.sampled_from(dy_))
        cx, cy = 8 * ri(-250, 250), 8 * ri(-250, 250)
        return k, [sx, 0, 0, sy, (1 - sx) * cx, (1 - sy) * cy]
    if k == "one_axis_scale_shift":
        # scale exactly 1 on one axis *with* a shift on that axis, the other axis scaled about an integral (or not) centre:
        # the guard (1 == sx) == (0 == dx) of the ScaleAroundCenter branch
        s_ = draw(st.sampled_from([0.5, 0.75, 1.5, -1.0, 0.25, 1.25, -0.5]))
        c_ = draw(st.one_of(st.integers(-2000, 2000).map(float), st.floats(-500, 500).map(lambda x: round(x, 3))))
        shift = draw(st.one_of(st.integers(-500, 500).filter(lambda x: x != 0).map(float), st.floats(1, 300).map(lambda x: round(x, 3))))
        if draw(st.booleans()):
            return k, [1.0, 0, 0, s_, shift, (1 - s_) * c_]
        return k, [s_, 0, 0, 1.0, (1 - s_) * c_, shift]
    if k == "scale_t_frac":
        return k, [r(-1.9, 1.9), 0, 0, r(-1.9, 1.9), r(-500, 500), draw(st.sampled_from([0.0, 1.0])) * r(-500, 500)]
    if k == "scale_t_near1":
        e = draw(st.sampled_from([1e-12, 1e-9, 1e-6, 1e-4, 1e-3]))
        return k, [1 + e, 0, 0, draw(st.sampled_from([1, 1 - e, 1 + e])), r(-5, 5), draw(st.sampled_from([0.0, 1.0])) * r(-5, 5)]
    if k == "mixed":
        return k, [r(-3, 3), r(-3, 3), r(-3, 3), r(-3, 3), r(-5000, 5000), r(-5000, 5000)]
    if k == "shear":
        return k, [1, r(-2, 2), r(-2, 2), 1, r(-100, 100), r(-100, 100)]
    if k == "rot":
        a = r(0, 6.3)
        return k, [math.cos(a), math.sin(a), -math.sin(a), math.cos(a), r(-100, 100), r(-100, 100)]
    if k == "sing":
        return k, [r(-1, 1), r(-1, 1), 1e-7, 1e-7, 0, 0]
    if k == "identityish":
        return k, draw(st.sampled_from([[1, 0, 0, 1, 0, 0], [1.0, 0.0, 0.0, 1.0, 0.0, 1e-15], [1 + 1e-16, 0, 0, 1, 0, 0], [1, 1e-12, 0, 1, 0, 0]]))
    return k, [r(-1e5, 1e5), 0, 0, r(-1e5, 1e5), r(-1e6, 1e6), r(-1e6, 1e6)]


GRAD_AFF = ["frac_t", "scale", "scale_t_frac", "scale_t_uniform", "mixed", "shear", "rot", "big_t"]


@st.composite
def grad_case(draw):
    kind = draw(st.sampled_from(["lin", "rad"]))
    k, A = draw(affine(GRAD_AFF))
    if k == "mixed":
        A = [A[0], A[1], A[2], A[3], A[4] / 10, A[5] / 10]
    r = lambda a, b: round(draw(fl(a, b, allow_nan=False, allow_infinity=False)), 6)
    big = draw(st.integers(0, 9)) == 0
    S = 40000.0 if big else 1500.0
    stops = [[0.0, 0, 1.0], [draw(st.sampled_from([0.25, 0.5, 0.7])), 1, 0.5], [1.0, 2, 1.0]]
    ext = draw(st.sampled_from(["pad", "repeat", "reflect"]))
    if kind == "lin":
        p0 = [r(-S, S), r(-S, S)]
        ang, ln = r(0, 6.3), r(100, 1500)
        p1 = [p0[0] + ln * math.cos(ang), p0[1] + ln * math.sin(ang)]
        if draw(st.booleans()):
            p2 = [p0[0] - (p1[1] - p0[1]), p0[1] + (p1[0] - p0[0])]
        else:
            a2 = ang + r(0.5, 2.6)
            l2 = r(100, 1500)
            p2 = [p0[0] + l2 * math.cos(a2), p0[1] + l2 * math.sin(a2)]
        return {"t": "lin", "A": A, "ak": k, "p0": p0, "p1": p1, "p2": p2, "stops": stops, "extend": ext}
    c1 = [r(-S, S), r(-S, S)]
    r1 = r(100, 1500)
    rho, th = r(0, 0.6), r(0, 6.3)
    c0 = [c1[0] + rho * r1 * math.cos(th), c1[1] + rho * r1 * math.sin(th)]
    r0 = draw(st.sampled_from([0.0, 0.0, 1.0])) * r(0, 0.3) * r1 * (1 - rho)
    return {"t": "rad", "A": A, "ak": k, "c0": c0, "r0": r0, "c1": c1, "r1": r1, "stops": stops, "extend": ext}


def cases(tier):
    aff = affine().map(lambda ka: {"t": "affine", "ak": ka[0], "A": ka[1]})
    dec = affine(["mixed", "shear", "rot", "scale", "scale_t_frac", "sing", "frac_t", "huge", "scale_lim"]).map(lambda ka: {"t": "decompose", "ak": ka[0], "A": ka[1]})
    from . import c01

    far_build = c01.far_reuse_case(["glyf_colr_1"], tier).map(lambda c: {"t": "build", "case": c})
    far = st.integers(0, 15).flatmap(lambda i: far_build if i == 0 else aff)
    return st.one_of(aff, aff, aff, far, dec, grad_case())


# ------------------------------------------------------------------------------------------ helpers
def ot_round(v):
    return int(math.floor(v + 0.5))


def q214(v):
    return ot_round(v * 16384) / 16384.0


def q1616(v):
    return ot_round(v * 65536) / 65536.0


def decode_nano_paint(p):
    """nanoemoji transform paint -> (affine after field quantisation per the OpenType types, error bound fn, fields ok?)"""
    t = type(p).__name__
    if t == "PaintTranslate":
        ok = all(-32768 <= ot_round(v) <= 32767 for v in (p.dx, p.dy))
        return (1, 0, 0, 1, ot_round(p.dx), ot_round(p.dy)), (lambda P: 0.5 * math.sqrt(2) + 1e-9), ok
    if t == "PaintScale":
        sx, sy = q214(p.scaleX), q214(p.scaleY)
        ok = all(-2.0 <= v <= F2MAX + 2 ** -15 for v in (p.scaleX, p.scaleY))
        return (sx, 0, 0, sy, 0, 0), (lambda P: (2 ** -15 + 1e-9) * (abs(P[0]) + abs(P[1])) + 1e-9), ok
    if t == "PaintScaleUniform":
        s = q214(p.scale)
        ok = -2.0 <= p.scale <= F2MAX + 2 ** -15
        return (s, 0, 0, s, 0, 0), (lambda P: (2 ** -15 + 2e-9) * (abs(P[0]) + abs(P[1])) + 1e-9), ok
    if t in ("PaintScaleAroundCenter", "PaintScaleUniformAroundCenter"):
        sx, sy = (q214(p.scaleX), q214(p.scaleY)) if t == "PaintScaleAroundCenter" else (q214(p.scale), q214(p.scale))
        raw = (p.scaleX, p.scaleY) if t == "PaintScaleAroundCenter" else (p.scale, p.scale)
        cx, cy = ot_round(p.center[0]), ot_round(p.center[1])
        ok = all(-2.0 <= v <= F2MAX + 2 ** -15 for v in raw) and all(-32768 <= v <= 32767 for v in (cx, cy))
        bound = lambda P: (2 ** -15 + 2e-9) * (abs(P[0] - cx) + abs(P[1] - cy)) + 3e-9 * (abs(1 - sx) + abs(1 - sy)) + 1e-6
        return (sx, 0, 0, sy, cx - sx * cx, cy - sy * cy), bound, ok
    if t == "PaintTransform":
        v = [q1616(x) for x in p.transform]
        ok = all(-32768.0 <= x < 32768.0 - 2 ** -17 for x in p.transform)
        return tuple(v), (lambda P: 2 ** -17 * (abs(P[0]) + abs(P[1]) + 1) * math.sqrt(2) + 1e-9), ok
    raise AssertionError(t)


def classify_affine(A, v):
    sx, b, c, sy, dx, dy = A
    near = lambda x, y: abs(x - y) <= 1e-6 * max(1.0, abs(y))
    nt = False
    for val in (dx, dy):
        if val and (near(abs(val), 32767) or near(abs(val), 32768) or abs(val) > 32768 or (abs(val - round(val)) < 1e-6 and val != round(val))):
            nt = True
    for val in (sx, sy):
        if near(val, -2.0) or near(val, F2MAX) or near(val, 2.0) or abs(val) > 2 or (near(val, 1.0) and val != 1):
            nt = True
    if b == 0 and c == 0 and (dx or dy) and (sx != 1 or sy != 1):
        nt = True  # scale+translate: the centre computation dx/(1-s)
    if any(abs(x) >= 32768 for x in A):
        nt = True
    return nt


def judge_affine(case, v):
    from nanoemoji.paint import PaintGlyph, PaintSolid, transformed
    from nanoemoji.colors import Color
    from picosvg.svg_transform import Affine2D

    A = tuple(float(x) for x in case["A"])
    v.cls("aff:" + case["ak"])
    v.nontrivial = classify_affine(A, v)
    leaf = PaintSolid(Color(0, 0, 0, 1.0))
    try:
        p = transformed(Affine2D(*A), leaf)
    except Exception as e:
        v.fail("transformed-raised", type(e).__name__, {"A": A, "error": repr(e)})
        return
    if p is leaf:
        v.cls("branch:identity")
        if A != (1.0, 0.0, 0.0, 1.0, 0.0, 0.0):
            # dropping a non-identity affine is only acceptable below fixed-point precision
            worst = max(math.hypot(A[0] * P[0] + A[2] * P[1] + A[4] - P[0], A[1] * P[0] + A[3] * P[1] + A[5] - P[1]) for P in PROBES)
            if worst > 2 ** -16 * 4100:
                v.fail("identity-for-non-identity", "transform dropped", {"A": A, "error": worst})
        return
    name = type(p).__name__
    v.cls("branch:" + name)
    g = tuple(p.gettransform())
    if any(abs(x - y) > 1e-9 * max(1.0, abs(y)) for x, y in zip(g, A)):
        v.fail("gettransform-mismatch", name, {"A": A, "got": g})
        return
    D, bound, fields_ok = decode_nano_paint(p)
    if not fields_ok:
        if name != "PaintTransform":
            v.fail("field-out-of-range", name, {"A": A, "paint": repr(p)[:300]})
            return
        v.cls("beyond-fixed-range")
    else:
        worst = 0.0
        for P in PROBES:
            x, y = A[0] * P[0] + A[2] * P[1] + A[4], A[1] * P[0] + A[3] * P[1] + A[5]
            x2, y2 = D[0] * P[0] + D[2] * P[1] + D[4], D[1] * P[0] + D[3] * P[1] + D[5]
            err, bd = math.hypot(x - x2, y - y2), bound(P)
            worst = max(worst, err / bd)
            if err > bd:
                v.fail("bound-exceeded", name, {"A": A, "P": P, "err": err, "bound": bd, "paint": repr(p)[:300]})
                return
        v.margin = worst
    # (2) compile round trip in a real COLR table
    black = Color(0, 0, 0, 1.0)
    ufo_paint = transformed(Affine2D(*A), PaintGlyph(glyph="sq", paint=leaf)).to_ufo_paint([black])
    glyphs = OrderedDict([(".notdef", ([[(0, 0), (0, 10), (10, 10)]], None)), ("sq", ([SQ], None)), ("c0", ([], None))])
    try:
        font, _ = make_font(glyphs, {0xE000: "c0"}, colr={"c0": ufo_paint}, palettes=[[(0, 0, 0, 1)]])
    except Exception as e:
        if fields_ok:
            v.fail("compile-raised-in-range", name + ":" + type(e).__name__, {"A": A, "error": repr(e)[:300]})
        else:
            v.rejected = "compile:" + type(e).__name__
        return
    if not fields_ok:
        v.fail("out-of-range-compiled-silently", name, {"A": A, "paint": repr(p)[:300]})
        return
    tree = ColrReader(font).tree("c0")
    lfs = list(leaves(tree))
    if len(lfs) != 1:
        v.fail("roundtrip-structure", name, {"A": A, "n": len(lfs)})
        return
    # (2b) the inverse direction: nanoemoji's own decoder (Paint.from_ot + gettransform, used when COLR is turned back into SVG)
    # applied to the compiled transform paint must give the matrix the COLR spec assigns to those fields (our reader's)
    otp = font["COLR"].table.BaseGlyphList.BaseGlyphPaintRecord[0].Paint
    if p is not leaf and otp.Format not in (10,):
        from nanoemoji.paint import Paint

        try:
            back = tuple(Paint.from_ot(otp).gettransform())
        except Exception as e:
            v.fail("from-ot-raised", name + ":" + type(e).__name__, {"A": A, "error": repr(e)[:300]})
            return
        spec = paint_matrix(otp.Format, ColrReader(font)._getter(otp))
        if any(abs(x - y) > 1e-6 * max(1.0, abs(y)) for x, y in zip(back, spec)):
            v.fail("from-ot-gettransform-mismatch", name, {"A": A, "from_ot": back, "spec": spec})
            return
    got = [s[1] for s in lfs[0].segs[0]]
    # TrueType glyph contour start/direction are preserved by the glyf table for a simple polygon
    want = [aapply(A, q) for q in SQ]
    for q, w in zip(SQ, want):
        d = min(math.hypot(w[0] - gx, w[1] - gy) for gx, gy in got)
        bd = bound(q)
        if d > bd + 1e-6:
            v.fail("roundtrip-bound-exceeded", name, {"A": A, "corner": q, "dist": d, "bound": bd, "got": got})
            return


def _cond(A):
    try:
        return anorm(A) * anorm(ainv(A))
    except (OverflowError, ZeroDivisionError):
        return float("inf")


def judge_decompose(case, v):
    from nanoemoji.paint import _decompose_uniform_transform
    from picosvg.svg_transform import Affine2D

    A = tuple(float(x) for x in case["A"])
    v.cls("dec:" + case["ak"])
    det = adet(A)
    if det == 0:
        v.discard = "singular"
        return
    v.nontrivial = abs(A[1]) + abs(A[2]) > 0 or abs(abs(A[0]) - abs(A[3])) > 1e-9
    if _cond(A) > 1e6 or abs(det) < 1e-6:
        v.discard = "ill-conditioned (cond > 1e6 or |det| < 1e-6)"
        return
    try:
        u, rem = _decompose_uniform_transform(Affine2D(*A))
    except Exception as e:
        cond = _cond(A)
        if cond > 1e6:
            v.rejected = "ill-conditioned:" + type(e).__name__
        else:
            v.fail("decompose-raised", type(e).__name__, {"A": A, "error": repr(e), "cond": cond})
        return
    u, rem = tuple(u), tuple(rem)
    if abs(abs(u[0]) - abs(u[3])) > 1e-9 * max(1.0, abs(u[0])) or u[1] != 0 or u[2] != 0:
        v.fail("uniform-part-not-uniform", "uniform", {"A": A, "uniform": u})
        return
    # uniform first (applied to the circles), then the residual wraps the gradient. The residual is rounded to 9
    # decimals by the code (far below Fixed 16.16), so the recomposition is judged pointwise with that rounding
    # propagated through the uniform part.
    for P in PROBES:
        up = aapply(u, P)
        got = aapply(rem, up)
        want = aapply(A, P)
        err = math.hypot(got[0] - want[0], got[1] - want[1])
        bd = 2e-9 * (abs(up[0]) + abs(up[1]) + 1) + 1e-9 * (abs(want[0]) + abs(want[1]) + 1)
        v.margin = max(v.margin, min(err / bd, 50.0))
        if err > bd:
            v.fail("decomposition-does-not-recompose", "product", {"A": A, "uniform": u, "remaining": rem, "P": P, "err": err, "bound": bd})
            return


def _grad_font(paint_obj):
    from nanoemoji.colors import Color
    from nanoemoji.paint import PaintGlyph

    cols = [Color(255, 0, 0, 1.0), Color(0, 255, 0, 1.0), Color(0, 0, 255, 1.0)]
    ufo_paint = PaintGlyph(glyph="sq", paint=paint_obj).to_ufo_paint(cols)
    glyphs = OrderedDict([(".notdef", ([[(0, 0), (0, 10), (10, 10)]], None)), ("sq", ([SQ], None)), ("c0", ([], None))])
    font, _ = make_font(glyphs, {0xE000: "c0"}, colr={"c0": ufo_paint}, palettes=[[(1, 0, 0, 1), (0, 1, 0, 1), (0, 0, 1, 1)]])
    return font


def judge_grad(case, v):
    from nanoemoji.colors import Color
    from nanoemoji.paint import ColorStop, Extend, PaintLinearGradient, PaintRadialGradient
    from picosvg.geometric_types import Point
    from picosvg.svg_transform import Affine2D

    A = tuple(float(x) for x in case["A"])
    v.cls("grad:" + case["t"], "gaff:" + case["ak"])
    if abs(adet(A)) < 1e-9:
        v.discard = "singular"
        return
    cols = [Color(255, 0, 0, 1.0), Color(0, 255, 0, 1.0), Color(0, 0, 255, 1.0)]
    rgb = [(255.0, 0.0, 0.0), (0.0, 255.0, 0.0), (0.0, 0.0, 255.0)]
    stops = tuple(ColorStop(stopOffset=o, color=cols[i]._replace(alpha=a)) for o, i, a in case["stops"])
    ref_stops = [(o, rgb[i], a) for o, i, a in case["stops"]]
    ext = Extend.__members__[case["extend"].upper()]
    if case["t"] == "lin":
        p0, p1, p2 = (tuple(case[k]) for k in ("p0", "p1", "p2"))
        orig = PaintLinearGradient(extend=ext, stops=stops, p0=Point(*p0), p1=Point(*p1), p2=Point(*p2))
        ref = Grad("L", (p0, p1, p2), ref_stops, case["extend"], A, "colr")
        mapped = [aapply(A, q) for q in (p0, p1, p2)]
        in_range = all(-32768 <= c <= 32767 for q in mapped for c in q)
        centre = p0
        span = math.hypot(p1[0] - p0[0], p1[1] - p0[1])
    else:
        c0, c1 = tuple(case["c0"]), tuple(case["c1"])
        orig = PaintRadialGradient(extend=ext, stops=stops, c0=Point(*c0), c1=Point(*c1), r0=case["r0"], r1=case["r1"])
        ref = Grad("R", (c0, case["r0"], c1, case["r1"]), ref_stops, case["extend"], A, "colr")
        in_range = None  # depends on the decomposition; judged through the compiled font
        centre = c1
        span = case["r1"]
    sim = abs(A[1]) + abs(A[2]) > 1e-9 or abs(abs(A[0]) - abs(A[3])) > 1e-9
    v.nontrivial = sim
    try:
        res = orig.apply_transform(Affine2D(*A))
    except OverflowError as e:
        if in_range is True:
            v.fail("spurious-overflow", case["t"], {"A": A, "mapped": mapped, "error": str(e)})
        else:
            v.rejected = "OverflowError"
        return
    except Exception as e:
        cond = _cond(A)
        if cond > 1e6:
            v.rejected = "ill-conditioned:" + type(e).__name__
        else:
            v.fail("apply-transform-raised", type(e).__name__, {"A": A, "error": repr(e), "case": case})
        return
    if in_range is False:
        v.fail("overflow-not-detected", case["t"], {"A": A, "mapped": mapped})
        return
    try:
        font = _grad_font(res)
    except Exception as e:
        v.rejected = "compile:" + type(e).__name__
        # a compile error is the 'error is raised' alternative of the statement; silent wrap is checked below
        return
    lf = list(leaves(ColrReader(font).tree("c0")))[0]
    impl = lf.paint
    if not isinstance(impl, Grad):
        v.fail("gradient-lost", case["t"], {"A": A})
        return
    if abs(adet(impl.M)) < 1e-3 * max(1.0, anorm(impl.M)) ** 2:
        # the emitted residual is (nearly) singular once its entries are F2DOT14: with A this close to singular that is the
        # format's precision, and colour "at corresponding points" is not defined on a collapsed plane
        v.discard = "residual transform singular at F2DOT14 precision"
        return
    bud = Budget("colr", 1000)
    worst = 0.0
    n_ok = 0
    for ix in range(-2, 3):
        for iy in range(-2, 3):
            q = (centre[0] + ix * span * 0.45 + 0.11 * span, centre[1] + iy * span * 0.45 - 0.07 * span)
            p = aapply(A, q)
            ti = impl.t(p)
            if ti is None:
                continue
            ci = impl.color_at_t(ti)
            delta = 0.71 * 3 * max(1.0, anorm(impl.M)) + 1.0
            rng = color_range(ref, p, delta, bud.eps_t, impl, ti)
            if rng is None or ci is None:
                continue
            n_ok += 1
            for k in range(4):
                eps = 2.0 if k < 3 else 2.0 / 255
                lo, hi = rng[k]
                exc = max(lo - ci[k], ci[k] - hi, 0.0) / eps
                if exc > worst:
                    worst = exc
                    info = {"q": q, "p": p, "channel": k, "impl": ci, "range": rng, "t_impl": ti, "t_ref": ref.t(p)}
    v.extra["probes"] = n_ok
    v.margin = min(worst, 50.0)
    if worst > 1.0:
        info.update({"A": A, "impl": repr(impl), "ref": repr(ref)})
        v.fail("gradient-colour-moved", case["t"], info)


def judge(case):
    v = Verdict()
    if case["t"] == "affine":
        judge_affine(case, v)
    elif case["t"] == "decompose":
        judge_decompose(case, v)
    elif case["t"] == "build":
        from . import c01

        v = c01.judge(case["case"])
        v.cls("build:reuse-overflow")
        # the EXTEND-DOMAIN class is C01's open finding K1, not a statement about transforms
        v.failures = [f for f in v.failures if f[0] != "EXTEND-DOMAIN"]
    else:
        judge_grad(case, v)
    return v
