"""C08 – the build is a function of its inputs: output bytes are deterministic."""
import hashlib
import json
import os
import subprocess
import sys

from hypothesis import strategies as st

from .. import build
from ..cli import REPO, Workspace, base_env, fonts_in, sha, tail
from ..gen_cp import sequence_set
from ..gen_svg import font_palette, model_paths, render, shape_library, source_model
from ..verdict import Verdict

ID = "C08"
LEVEL = "exploration"
RULE = (
    "CLI tier: Hypothesis draws 2-6 source files (generated SVGs with shared shape libraries, several colours, codepoint-sequence file names so "
    "that sequence-only codepoints, palette and reuse groups are sets of size >= 2), a colour format (vector, OT-SVG, bitmap) and a variation: a "
    "permutation of the argument list, sources spread over two directories and spelled relative to different working directories, PYTHONHASHSEED in {0, 1, drawn}, ninja -j in {1, 2, 16} through a PATH shim, seeded per-step latencies that "
    "perturb completion order, a copy of the workspace at another absolute location with another cwd and --build_dir, and a schedule the harness "
    "owns: build.ninja generated with --noexec_ninja, ninja asked for 1-4 single targets in a drawn order (the font itself first in half of the "
    "cases) before the full build. Oracle: with SOURCE_DATE_EPOCH fixed the sha256 of the output font is identical across the base build and every variant. API tier: the same generated "
    "inputs through write_font._generate_color_font in fresh interpreters with different hash seeds: identical bytes. Non-trivial: >= 2 sources "
    "and (>= 2 sequence-only codepoints, >= 2 colours or a reuse group of >= 2 glyphs)."
)
ASSUMPTIONS = ["ninja's scheduling is influenced (-j, latencies, single-target requests), not enumerated", "resvg/pngquant/zopfli are deterministic tools"]
BUDGET = {"quick": 48, "thorough": 1200}
TIMEOUT = {"quick": 1500, "thorough": 7200}
FORMATS = ["glyf_colr_1", "glyf_colr_1", "glyf_colr_0", "cff2_colr_1", "glyf", "picosvg", "picosvgz", "untouchedsvg", "cbdt", "sbix"]


def setup_worker():
    build.init()


@st.composite
def det_case(draw, tier):
    kind = draw(st.sampled_from(["cli", "api", "api", "api"]))
    fmt = draw(st.sampled_from(FORMATS if kind == "cli" else [f for f in FORMATS if f not in ("cbdt", "sbix")]))
    n = draw(st.integers(2, 6))
    palette = draw(font_palette())
    lib = draw(shape_library())
    seqs = draw(sequence_set(n, max_len=4))
    vb = [0.0, 0.0, 100.0, 100.0] if draw(st.booleans()) else None
    sources = []
    for i in range(n):
        m = draw(source_model(palette, lib, vb=vb, max_shapes=4, p_grad=0.3, allow_groups=True, place_classes=["identity", "translate", "rotate", "reflect", "uscale"]))
        sources.append({"model": m, "cps": seqs[i]})
    var = {
        "argv_perm": draw(st.permutations(list(range(n)))),
        "hashseeds": [draw(st.sampled_from(["1", "random", "12345"])), draw(st.integers(2, 10 ** 6))],
        "jobs": draw(st.sampled_from([1, 2, 16])),
        "delay": draw(st.integers(1, 10 ** 6)),
        "keep_names": draw(st.booleans()),
        # a schedule the harness owns: which build targets are requested from ninja one by one, before the full build
        "sched": [draw(st.floats(0, 0.999)) for _ in range(3)],
        "font_first": draw(st.booleans()),
    }
    return {"kind": kind, "fmt": fmt, "sources": sources, "var": var}


def enumerate_cases(tier):
    """Argument lists that name several configuration files: each option in which two configurations of one invocation may
    differ (they share their source files), in both argument orders."""
    from . import c20

    for opt in sorted(c20.PAIR_OPTIONS):
        fam, vals = c20.PAIR_OPTIONS[opt]
        yield {"kind": "cfgorder", "fmt": c20.FAMILY_OF[fam], "option": opt, "family": fam, "values": vals, "sources": [], "var": {}}
    # two configurations whose sources live in different directories, with some file names in common (different artwork)
    for fam, fmt in (("vector", "glyf_colr_1"), ("otsvg", "picosvg"), ("bitmap", "cbdt")):
        yield {"kind": "cfgorder", "fmt": fmt, "option": "color_format", "family": fam, "values": [fmt, fmt], "dirs": True, "sources": [], "var": {}}


def cases(tier):
    return det_case(tier)


def file_name(cps):
    return "emoji_u" + "_".join("%04x" % c for c in cps) + ".svg"


def nontrivial(case):
    srcs = case["sources"]
    singles = {s["cps"][0] for s in srcs if len(s["cps"]) == 1}
    seq_only = {c for s in srcs if len(s["cps"]) > 1 for c in s["cps"]} - singles
    colours = {json.dumps(p["fill"], sort_keys=True) for s in srcs for p in model_paths(s["model"])}
    libs = [p.get("tag", "") for s in srcs for p in model_paths(s["model"]) if p.get("tag", "").startswith("lib")]
    return len(srcs) >= 2 and (len(seq_only) >= 2 or len(colours) >= 2 or len(libs) >= 2)


API_SCRIPT = r"""
import sys, json, hashlib, io
sys.path.insert(0, %r)
from vlib import build
case = json.load(open(sys.argv[1]))
r = build.build_font(case["cfg"], case["sources"], reload=False)
if r.error is not None:
    print("ERROR", type(r.error).__name__, str(r.error)[:200])
else:
    print("SHA", hashlib.sha256(r.data).hexdigest())
"""


def judge_api(case, v):
    import tempfile

    cfg = {"color_format": case["fmt"], "keep_glyph_names": case["var"]["keep_names"]}
    payload = {"cfg": cfg, "sources": [{"svg": render(s["model"]), "cps": s["cps"]} for s in case["sources"]]}
    d = tempfile.mkdtemp(prefix="nanoverif-c08-")
    try:
        p = os.path.join(d, "case.json")
        with open(p, "w") as f:
            json.dump(payload, f)
        script = API_SCRIPT % os.environ.get("VERIF_HOME", os.path.dirname(os.path.dirname(os.path.dirname(os.path.abspath(__file__)))))
        outs = []
        for hs in ["0"] + [str(x) for x in case["var"]["hashseeds"]]:
            env = base_env(hs)
            env["PYTHONPATH"] = os.path.join(REPO, "src")
            env["SOURCE_DATE_EPOCH"] = "1700000000"
            r = subprocess.run([sys.executable, "-c", script, p], env=env, capture_output=True, timeout=300)
            out = r.stdout.decode().strip().splitlines()
            outs.append((hs, out[-1] if out else "NOOUT " + r.stderr.decode()[-300:]))
        vals = {o for _, o in outs}
        if any(o.startswith("NOOUT") for _, o in outs):
            raise AssertionError("API subprocess failed: %s" % outs)
        if all(o.startswith("ERROR") for _, o in outs):
            v.rejected = "build raises: " + outs[0][1][:40]
            return
        if len(vals) != 1:
            v.fail("bytes-differ", "api:hashseed", {"results": outs, "fmt": case["fmt"]})
    finally:
        import shutil

        shutil.rmtree(d, ignore_errors=True)


def _build(ws, root, names, fmt, build_dir, keep, **kw):
    args = ["nanoemoji", "--color_format", fmt, "--build_dir", build_dir]
    if keep:
        args.append("--keep_glyph_names")
    if fmt in ("cbdt", "sbix"):
        args += ["--bitmap_resolution", "32"]
    args += names
    rc, out = ws.run(args, cwd=root, **kw)
    fonts = fonts_in(os.path.join(root, build_dir) if not os.path.isabs(build_dir) else build_dir)
    return rc, out, (sha(fonts[0]) if rc == 0 and fonts else None)


def _target_schedule(ws, root, names, fmt, var):
    """Generate build.ninja only, then ask ninja for single targets in a drawn order (the font first in half of the cases: every
    step the font needs must be reachable through declared edges), then run the full build. Any order of requests that the
    declared graph allows is a schedule a parallel ninja may take."""
    bd = "build_sched"
    args = ["nanoemoji", "--color_format", fmt, "--build_dir", bd, "--noexec_ninja"] + (["--keep_glyph_names"] if var["keep_names"] else [])
    if fmt in ("cbdt", "sbix"):
        args += ["--bitmap_resolution", "32"]
    rc, out = ws.run(args + names, cwd=root, hashseed="0")
    label = "target-schedule"
    if rc != 0:
        return label, "FAILED:" + tail(out, 2)
    rc, out = ws.run(["ninja", "-C", bd, "-t", "targets", "all"], cwd=root)
    targets = sorted(l.split(": ")[0] for l in out.splitlines() if ": " in l and not l.startswith("ninja:"))
    fonts = [t for t in targets if t.endswith((".ttf", ".otf")) and "/" not in t]
    order = []
    if var["font_first"] and fonts:
        order.append(fonts[0])
    for f in var["sched"]:
        if targets:
            order.append(targets[int(f * len(targets))])
    for t in order:
        rc, out = ws.run(["ninja", "-C", bd, t], cwd=root, hashseed="0", ninja_j=var["jobs"])
        if rc != 0:
            return label + ":" + t, "FAILED:" + tail(out, 3)
    rc, out = ws.run(["ninja", "-C", bd], cwd=root, hashseed="0", ninja_j=var["jobs"])
    if rc != 0:
        return label, "FAILED:" + tail(out, 3)
    built = fonts_in(os.path.join(root, bd))
    return label + ",requests=%s" % ";".join(order), (sha(built[0]) if built else "NO FONT")


def judge_cli(case, v):
    import shutil

    fmt = case["fmt"]
    var = case["var"]
    with Workspace("c08") as ws:
        ws.shims()
        names = []
        for si, s in enumerate(case["sources"]):
            fn = file_name(s["cps"])
            # sources live in two sibling directories whose order differs from the order of the file names
            sub = "src/zz" if si % 2 == 0 else "src/aa"
            ws.write("proj/%s/%s" % (sub, fn), render(s["model"]))
            names.append("%s/%s" % (sub, fn))
        root = ws.path("proj")
        results = []
        rc, out, h0 = _build(ws, root, names, fmt, "build", var["keep_names"], hashseed="0", ninja_j=4)
        if rc != 0:
            # a source set the tool rejects is not a determinism case; both orders must at least agree on failing
            rc2, out2, _ = _build(ws, root, list(reversed(names)), fmt, "build2", var["keep_names"], hashseed="1", ninja_j=1)
            if rc2 == 0:
                v.fail("success-depends-on-variation", "base fails, variant succeeds", {"out": tail(out)})
            else:
                v.rejected = "build fails: " + tail(out, 1)[:60]
            return
        results.append(("base", h0))
        perm = [names[i] for i in var["argv_perm"]]
        rc, out, h = _build(ws, root, perm, fmt, "build_perm", var["keep_names"], hashseed=str(var["hashseeds"][0]), ninja_j=var["jobs"], delay=var["delay"])
        results.append(("argv-permuted,hashseed=%s,j=%s,latency" % (var["hashseeds"][0], var["jobs"]), h if rc == 0 else "FAILED:" + tail(out, 2)))
        rc, out, h = _build(ws, root, names, fmt, "build_j", var["keep_names"], hashseed=str(var["hashseeds"][1]), ninja_j=1 if var["jobs"] != 1 else 16)
        results.append(("hashseed=%s,j=%s" % (var["hashseeds"][1], 1 if var["jobs"] != 1 else 16), h if rc == 0 else "FAILED:" + tail(out, 2)))
        # another absolute location, another cwd, absolute --build_dir
        other = ws.path("elsewhere/deeper/proj2")
        shutil.copytree(os.path.join(root, "src"), os.path.join(other, "src"))
        os.makedirs(ws.path("cwd2"), exist_ok=True)
        abs_names = [os.path.join(other, n) for n in names]
        rc, out, h = _build(ws, ws.path("cwd2"), abs_names, fmt, os.path.join(other, "out", "b"), var["keep_names"], hashseed="0", ninja_j=4)
        results.append(("other-location,other-cwd", h if rc == 0 else "FAILED:" + tail(out, 2)))
        # the same files spelled relative to another working directory (../aa/x.svg, x.svg): only names and contents may matter
        cwd3 = os.path.join(root, "src", "aa")  # "../zz/…" sorts before "emoji_…": spelling order != path order
        rel_names = [os.path.relpath(os.path.join(root, n), cwd3) for n in names]
        rc, out, h = _build(ws, cwd3, rel_names, fmt, os.path.join(root, "build_rel"), var["keep_names"], hashseed="0", ninja_j=4)
        results.append(("relative-spelling-from-subdir", h if rc == 0 else "FAILED:" + tail(out, 2)))
        if "sched" in var:
            results.append(_target_schedule(ws, root, names, fmt, var))
        v.extra_evals = len(results) - 1
        for label, h in results[1:]:
            if h != h0:
                v.fail("bytes-differ", "cli:" + label.split(",")[0], {"variant": label, "base": h0, "variant_sha": h, "fmt": fmt})


def judge_cfgorder(case, v):
    """`nanoemoji a.toml b.toml` and `nanoemoji b.toml a.toml` over the same files: every output font byte-identical."""
    from . import c20

    opt, fam = case["option"], case["family"]
    v.cls("cfgorder:" + opt)
    v.nontrivial = True
    base = {"color_format": c20.FAMILY_OF[fam]}
    if fam == "bitmap":
        base["bitmap_resolution"] = 40
    if opt == "glyphmap_generator":
        base["keep_glyph_names"] = True
    cfgs = []
    for i, val in enumerate(case["values"]):
        c = dict(base)
        c[opt] = val
        c["output_file"] = "Font%s.ttf" % "AB"[i]
        c["family"] = "Pair %s" % "AB"[i]
        cfgs.append(c)
    files = {"src/" + k: x for k, x in c20.FILES.items()}
    srcs = ['["src/*.svg"]', '["src/*.svg"]']
    if case.get("dirs"):
        v.cls("cfgorder:dirs")
        files.update({"src2/emoji_u1f600.svg": c20.SRC_WIDE.replace("#806040", "#204080"), "src2/emoji_u1f603.svg": c20.SRC_WIDE.replace("#806040", "#405060"),
                      "src2/emoji_u1f468_200d_1f469.svg": c20.FILES["emoji_u1f600.svg"], "src2/emoji_u0023.svg": c20.SRC_WIDE.replace("#806040", "#a03060")})
        srcs = ['["src/*.svg"]', '["src2/*.svg"]']
    hashes = []
    for order in (["c0.toml", "c1.toml"], ["c1.toml", "c0.toml"]):
        with Workspace("c08cfg") as ws:
            ws.shims()
            for name, text in files.items():
                ws.write(name, text)
            for i, c in enumerate(cfgs):
                c20.write_toml(ws, "c%d.toml" % i, c, srcs[i])
            ws.write("my_glyphmap.py", c20.MY_GLYPHMAP)
            rc, out = ws.run(["nanoemoji", "--build_dir", "build"] + order, ninja_j=4, hashseed="0", env={"PYTHONPATH": os.environ.get("VERIF_REPO", "/repo") + "/src:" + ws.root})
            hashes.append([("FAILED:" + tail(out, 2)) if rc != 0 else sha(ws.path("build", c["output_file"])) for c in cfgs])
    if all(str(h).startswith("FAILED") for hs in hashes for h in hs):
        v.rejected = "build fails: " + str(hashes[0][0])[:60]
        return
    v.extra_evals = 1
    for i, c in enumerate(cfgs):
        if hashes[0][i] != hashes[1][i]:
            v.fail("bytes-differ", "cli:config-order:" + opt, {"config": i, "option": opt, "value": c[opt], "order01": hashes[0][i], "order10": hashes[1][i]})


def judge(case):
    v = Verdict()
    if case["kind"] == "cfgorder":
        judge_cfgorder(case, v)
        return v
    v.cls("tier:" + case["kind"], "fmt:" + case["fmt"])
    v.nontrivial = nontrivial(case)
    if case["kind"] == "api":
        judge_api(case, v)
    else:
        judge_cli(case, v)
    return v


def shrink(case):
    if case["kind"] == "cfgorder":
        return
    srcs = case["sources"]
    for i in range(len(srcs)):
        if len(srcs) > 2:
            var = dict(case["var"], argv_perm=list(range(len(srcs) - 1)))
            yield dict(case, sources=srcs[:i] + srcs[i + 1 :], var=var)
