"""C05 – a COLRv1 clip box never cuts painted content."""
from hypothesis import strategies as st

from .. import build
from ..display import Group, leaves
from ..gen_cfg import COLR1
from ..ref_colr import BadCOLR, ColrReader, UnsupportedPaint
from ..vecoracle import Ref, case_classes, reach, to_build_sources
from ..verdict import Verdict
from . import c01

ID = "C05"
LEVEL = "exploration"
RULE = (
    "C01's generator for the COLRv1 flavours, weighted to shared shape libraries placed by rotation, reflection, uniform / non-uniform / "
    "large scale, shear and far translation (content outside the viewBox), with user transforms, clipbox_quantization in {default 2% upem, "
    "1, 2..256} and any upem. Oracle, recomputed from the binary and from the source (never from nanoemoji's bounds): every base glyph that "
    "paints has a ClipBox whose four edges are multiples of q (integers when q <= 1); the exact curve bounds (extrema) of every compiled "
    "outline after all paint transforms lie inside the box expanded by (0.71 + 0.001 upem) max(1,|L|) + 1; the exact bounds of every source "
    "shape mapped to font space lie inside the box expanded by 0.5 max(1,|L|) + reuse tolerance; a glyph that paints nothing has no ClipBox. "
    "Non-trivial: some leaf placed with |L| != 1 or a rotation/reflection, content outside the viewBox, or a non-default q."
)
ASSUMPTIONS = ["fontTools decompiles COLR ClipList / glyf / CFF correctly", "exact curve extrema computed by vlib/geom.py"]
BUDGET = {"quick": 640, "thorough": 24000}
TIMEOUT = {"quick": 900, "thorough": 7200}
CLASSES = ["rotate", "reflect", "uscale", "nuscale", "big", "shear", "translate_far", "translate", "identity"]


def setup_worker():
    build.init()


def enumerate_cases(tier):
    yield from c01.origin_rows(["glyf_colr_1"])


def cases(tier):
    return st.one_of(
        c01.vector_case(COLR1, tier, lib_always=True, place_classes=CLASSES, lib_prob=0.85, p_grad=0.2),
        c01.vector_case(COLR1, tier, p_grad=0.2),
        c01.grid_case(COLR1, tier),
    )


shrink = c01.shrink
sample_repr = c01.sample_repr


def pyround(x):
    return int(round(x))


def judge(case):
    v = Verdict()
    cfg = case["cfg"]
    case_classes(case, v)
    srcs = to_build_sources(case)
    refs = [Ref(s["svg"], cfg) for s in srcs]
    if max([rf.max_coord() for rf in refs] + [0.0]) > c01.DOMAIN_COORD:
        # outside what OpenType outlines can express at all (glyf stores int16 *deltas*: an extent > 32767 cannot be encoded)
        v.discard = "reference geometry beyond %d font units" % c01.DOMAIN_COORD
        return v
    r = build.build_font(cfg, srcs)
    if r.error is not None:
        c01.judge_rejection(v, r, refs, cfg)
        return v
    font = r.font
    if "COLR" not in font:
        if all(not rf.tree for rf in refs):
            v.discard = "nothing painted"
            return v
        v.fail("no-colr", "table", {})
        return v
    rd = ColrReader(font)
    upem = cfg["upem"]
    q = cfg["clipbox_quantization"] if cfg["clipbox_quantization"] is not None else pyround(0.02 * upem)
    if cfg["clipbox_quantization"] is not None:
        v.cls("q:explicit" if q > 1 else "q:1")
    cu2qu = 0.0 if cfg["color_format"].startswith("cff") else 0.001 * upem
    nt = cfg["clipbox_quantization"] is not None
    for i, (s, rf) in enumerate(zip(srcs, refs)):
        gname, why = reach(font, s["cps"])
        if gname is None:
            v.fail("unreachable", why, {"source": i})
            continue
        try:
            impl = rd.tree(gname)
        except (BadCOLR, UnsupportedPaint) as e:
            v.fail("bad-colr", getattr(e, "kind", "unsupported"), {"source": i, "msg": str(e)})
            continue
        box = rd.clipbox(gname)
        il = list(leaves(impl))
        rl = list(leaves(rf.tree))
        if not il and not rl:
            if box is not None:
                v.fail("clipbox-on-empty", "glyph paints nothing but has a ClipBox", {"source": i, "box": box})
            continue
        if box is None:
            v.fail("clipbox-missing", "painted glyph without ClipBox", {"source": i, "leaves": len(il)})
            continue
        if q > 1:
            if any(e % q for e in box):
                v.fail("off-grid", "ClipBox edge not a multiple of the quantisation step", {"source": i, "box": box, "q": q})
        elif any(e != int(e) for e in box):
            v.fail("off-grid", "non-integer ClipBox edge", {"source": i, "box": box})
        if box[0] > box[2] or box[1] > box[3]:
            v.fail("inverted-box", "xMin>xMax or yMin>yMax", {"source": i, "box": box})
        for k, lf in enumerate(il):
            b = lf.bounds
            if b is None:
                continue
            L = max(1.0, lf.norm)
            if abs(lf.norm - 1.0) > 1e-6:
                nt = True
                v.cls("leaf:|L|!=1")
            eps = (0.71 + cu2qu) * L + 1.0
            prot = max(box[0] - b[0], box[1] - b[1], b[2] - box[2], b[3] - box[3])
            v.margin = max(v.margin, min(max(prot, 0.0) / eps, 50.0))
            if prot > eps:
                v.fail("compiled-outline-clipped", "compiled outline protrudes beyond the ClipBox", {"source": i, "leaf": k, "box": box, "bounds": b, "protrusion": prot, "eps": eps, "norm": lf.norm, "glyph": lf.tag})
                break
        if len(il) == len(rl):
            for k, (a, b_) in enumerate(zip(il, rl)):
                b = b_.bounds
                if b is None:
                    continue
                L = max(1.0, a.norm)
                # same reuse allowance as display.Budget (A3): sqrt(2) per point, x2 because picosvg compares relative path parameters
                eps = 0.5 * L + max(0.0, cfg["reuse_tolerance"]) * 1.4143 * 2.0 * max(1.0, rf.scale * rf.user_norm) + 1e-6 * upem + 1e-6
                prot = max(box[0] - b[0], box[1] - b[1], b[2] - box[2], b[3] - box[3])
                if prot > eps:
                    v.fail("source-shape-clipped", "source shape lies outside the ClipBox", {"source": i, "leaf": k, "box": box, "bounds": b, "protrusion": prot, "eps": eps})
                    break
        vb = rf.vb
        for lf in leaves(rf.src_tree):
            b = lf.bounds
            if b and (b[0] < vb[0] or b[1] < vb[1] or b[2] > vb[0] + vb[2] or b[3] > vb[1] + vb[3]):
                nt = True
                v.cls("content-outside-viewbox")
                break
    if list(cfg.get("transform") or [1, 0, 0, 1, 0, 0]) != [1, 0, 0, 1, 0, 0]:
        nt = True
    v.nontrivial = nt
    return v
