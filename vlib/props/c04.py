"""C04 – every source is reachable from its codepoints, and only from them."""
from fontTools.pens.recordingPen import DecomposingRecordingPen
from hypothesis import strategies as st

from .. import build
from ..display import Solid, leaves
from ..gen_cfg import ALL_FORMATS, metrics
from ..gen_cp import sequence_set
from ..geom import exact_bounds, segments
from ..ref_colr import BadCOLR, ColrReader, UnsupportedPaint
from ..ref_svg import BadSVG, UnsupportedSVG
from ..shaper import shape
from ..vecoracle import advance_ok, impl_tree, svg_doc_for_gid
from ..verdict import Verdict
from .c14 import make_png

ID = "C04"
LEVEL = "exploration"
RULE = (
    "Hypothesis draws 1-7 (thorough 1-12) pairwise-distinct codepoint sequences of length 1-14 from a pool built to interact (ASCII letters, "
    "hex look-alikes a-g, ZWJ, VS16, skin tones, regional indicators, keycaps, arbitrary scalars; strict prefixes, shared first components, "
    "sequences of other sources' singles, names > 63 chars), one of the 13 colour formats, keep_glyph_names, a viewBox aspect in 1:4..4:1 and "
    "metrics/width; a third of the sources also carry one common badge shape (glyphs sharing a shape are grouped and reordered in OT-SVG). Every source carries a signature (unique fill colour / PNG bytes / rectangle size). Oracle on the reloaded font, with our "
    "own shaper (cmap + ccmp ligatures per the OpenType algorithm): each sequence shapes to one glyph, distinct per source, that carries "
    "that source's signature; glyph 0 is .notdef with an outline; U+0020 maps to a blank glyph; codepoints used only inside sequences map to "
    "blank glyphs without colour records; advance = max(width, round(em*w/h)); shaping a strict prefix that is not itself a source, or a "
    "single codepoint that is not a source, never yields a source's glyph. Non-trivial: a sequence shares a prefix/first component with another, "
    "a name longer than 63 chars, a format that reorders gids (OT-SVG) or strips names (post 3)."
)
ASSUMPTIONS = ["fontTools decompiles cmap/GSUB/COLR/SVG/CBDT/sbix correctly", "shaping model: cmap + ccmp ligature lookups, lookup flag 0"]
BUDGET = {"quick": 960, "thorough": 32000}
TIMEOUT = {"quick": 900, "thorough": 7200}


def setup_worker():
    build.init()


@st.composite
def case_st(draw, tier):
    m = draw(metrics(max_upem=4096))
    fmt = draw(st.sampled_from(ALL_FORMATS))
    n = draw(st.integers(1, 7 if tier == "quick" else 12))
    seqs = draw(sequence_set(n))
    aspect = draw(st.sampled_from([1.0, 1.0, 0.25, 0.5, 2.0, 4.0, 1.5, 0.8]))
    res = draw(st.sampled_from([16, 32, 40, 64]))
    cfg = dict(m, color_format=fmt, keep_glyph_names=draw(st.booleans()), bitmap_resolution=res)
    # some sources carry one and the same small badge besides their signature: glyphs that share a shape are grouped (and, in
    # OT-SVG, reordered and put in one document) - sources that share nothing must come through that unharmed too
    share = [draw(st.sampled_from([False, False, True])) for _ in range(n)]
    if fmt in ("cbdt", "sbix"):
        # keep the strike representable (C14 judges the limits)
        emh = cfg["ascender"] - cfg["descender"]
        if cfg["upem"] * res / emh > 120 or cfg["ascender"] * res / emh > 110 or max(cfg["width"], emh * aspect) * res / emh > 250:
            cfg.update(upem=1024, ascender=950, descender=-250, width=draw(st.sampled_from([0, 1200, 1275])))
    return {"cfg": cfg, "seqs": seqs, "aspect": aspect, "share": share}


def cases(tier):
    return case_st(tier)


def sig_color(i):
    return (17 + i * 29) % 256, (201 + i * 53) % 256, (90 + i * 11) % 256


def source_for(i, cfg, aspect, badge=False):
    fmt = cfg["color_format"]
    if fmt in ("cbdt", "sbix"):
        h = cfg["bitmap_resolution"]
        w = min(255, max(4, int(round(h * aspect))))  # CBDT cannot hold a bitmap wider than 255 px (C14 judges the limits)
        return {"png": make_png(w, h, 1000 + i)}, (0, 0, w, h)
    vbh = 100.0
    vbw = vbh * aspect
    r, g, b = sig_color(i)
    # signature rectangle: unique size per source
    x0, y0 = 0.1 * vbw, 10.0
    w, h = vbw * (0.3 + 0.04 * i), 20.0 + 3.0 * i
    # a rectangle with a notch in one edge at a source-specific fraction: same bounds as the plain rectangle, but no two of them
    # are affine images of each other, so sources share an outline only through the badge below
    a = 0.25 + 0.05 * (i % 10)
    d = "M%g,%g L%g,%g L%g,%g L%g,%g L%g,%g L%g,%g Z" % (x0, y0, x0 + w, y0, x0 + w, y0 + h, x0 + w * a, y0 + h, x0 + w * (a - 0.1), y0 + h * (0.55 + 0.03 * (i // 10)), x0, y0 + h)
    extra = ""
    if badge:
        bx, by = x0 + 0.02 * vbw, y0 + 2.0  # inside the signature rectangle: bounds stay the signature's
        extra = '<path d="M%g,%g L%g,%g L%g,%g Z" fill="#000000"/>' % (bx, by, bx + 0.1 * vbw, by, bx, by + 8.0)
    svg = '<svg xmlns="http://www.w3.org/2000/svg" viewBox="0 0 %g %g"><defs/><path d="%s" fill="#%02x%02x%02x"/>%s</svg>' % (vbw, vbh, d, r, g, b, extra)
    return {"svg": svg}, (0, 0, vbw, vbh)


def glyph_is_blank(font, gs, gname, rd):
    rp = DecomposingRecordingPen(gs)
    gs[gname].draw(rp)
    if segments(rp.value):
        return False
    if rd is not None and rd.has_record(gname):
        return False
    gid = font.getGlyphID(gname)
    if "SVG " in font and svg_doc_for_gid(font, gid) is not None:
        return False
    if "CBDT" in font and any(gname in sd for sd in font["CBDT"].strikeData):
        return False
    if "sbix" in font:
        for stk in font["sbix"].strikes.values():
            g = stk.glyphs.get(gname)
            if g is not None and g.imageData:
                return False
    return True


def judge(case):
    v = Verdict()
    cfg = case["cfg"]
    fmt = cfg["color_format"]
    seqs = [list(s) for s in case["seqs"]]
    v.cls("fmt:" + fmt, "names:" + ("kept" if cfg["keep_glyph_names"] else "stripped"))
    srcs = []
    vbs = []
    for i, cps in enumerate(seqs):
        s, vb = source_for(i, cfg, case["aspect"], badge=bool(case.get("share") and case["share"][i]))
        s["cps"] = cps
        srcs.append(s)
        vbs.append(vb)
    tset = {tuple(s) for s in seqs}
    shares = any(a != b and (a[0] == b[0] or a[: len(b)] == b) for a in tset for b in tset)
    from nanoemoji.glyph import glyph_name

    longname = any(len("_".join("%x" % c for c in s)) > 63 for s in seqs)
    if longname:
        v.cls("name>63")
    if shares:
        v.cls("shared-prefix-or-first")
    v.nontrivial = shares or longname or fmt.startswith(("picosvg", "untouched")) or not cfg["keep_glyph_names"]
    r = build.build_font(cfg, srcs)
    if r.error is not None:
        v.fail("build-error", type(r.error).__name__ + ":" + str(r.error)[:60], {"error": repr(r.error)[:400], "seqs": seqs, "cfg": cfg})
        return v
    font = r.font
    gs = font.getGlyphSet()
    order = font.getGlyphOrder()
    rd = ColrReader(font) if "COLR" in font else None
    # glyph 0
    rp = DecomposingRecordingPen(gs)
    gs[order[0]].draw(rp)
    if (cfg["keep_glyph_names"] and order[0] != ".notdef") or not segments(rp.value):
        v.fail("notdef", "glyph 0 is not .notdef with an outline", {"name": order[0]})
    cmap = font.getBestCmap()
    if 0x20 not in cmap:
        v.fail("space", "U+0020 unmapped", {})
    elif not glyph_is_blank(font, gs, cmap[0x20], rd):
        v.fail("space", "U+0020 maps to a non-blank glyph", {"glyph": cmap[0x20]})
    # sources
    reached = {}
    cache = {}
    for i, s in enumerate(srcs):
        g = shape(font, s["cps"])
        if g is None or len(g) != 1:
            v.fail("unreachable", "sequence does not shape to one glyph", {"source": i, "cps": s["cps"], "shaped": g})
            continue
        gname = g[0]
        if gname in reached.values():
            v.fail("not-distinct", "two sources reach the same glyph", {"source": i, "glyph": gname, "other": [k for k, x in reached.items() if x == gname]})
        reached[i] = gname
        adv = font["hmtx"][gname][0]
        if not advance_ok(cfg, vbs[i], adv):
            v.fail("advance", "advance-rule", {"source": i, "got": adv, "vb": vbs[i], "cfg": cfg})
        # artwork identity
        r_, g_, b_ = sig_color(i)
        try:
            if fmt in ("cbdt",):
                recs = [sd[gname] for sd in font["CBDT"].strikeData if gname in sd]
                if len(recs) != 1 or bytes(recs[0].imageData) != s["png"]:
                    v.fail("wrong-artwork", fmt, {"source": i, "glyph": gname, "n": len(recs)})
            elif fmt == "sbix":
                recs = [stk.glyphs[gname] for stk in font["sbix"].strikes.values() if gname in stk.glyphs and stk.glyphs[gname].imageData]
                if len(recs) != 1 or bytes(recs[0].imageData) != s["png"]:
                    v.fail("wrong-artwork", fmt, {"source": i, "glyph": gname, "n": len(recs)})
            elif fmt.startswith("untouched"):
                hit = svg_doc_for_gid(font, font.getGlyphID(gname))
                sigtext = 'fill="#%02x%02x%02x"' % (r_, g_, b_)
                if hit is None or sigtext not in hit[0] or 'id="glyph%d"' % font.getGlyphID(gname) not in hit[0]:
                    v.fail("wrong-artwork", fmt, {"source": i, "glyph": gname, "doc": (hit[0][:300] if hit else None)})
            elif fmt == "glyf":
                rp = DecomposingRecordingPen(gs)
                gs[gname].draw(rp)
                b = exact_bounds(segments(rp.value))
                scale = (cfg["ascender"] - cfg["descender"]) / vbs[i][3]
                want_w, want_h = vbs[i][2] * (0.3 + 0.04 * i) * scale, (20.0 + 3.0 * i) * scale
                if b is None or abs((b[2] - b[0]) - want_w) > 2.5 or abs((b[3] - b[1]) - want_h) > 2.5:
                    v.fail("wrong-artwork", fmt, {"source": i, "glyph": gname, "bounds": b, "want": (want_w, want_h)})
            else:
                t, _ = impl_tree(font, gname, reader=rd, doc_cache=cache)
                lfs = list(leaves(t))
                want_n = 2 if (case.get("share") and case["share"][i]) else 1
                if len(lfs) != want_n or not isinstance(lfs[0].paint, Solid) or lfs[0].paint.rgb != (float(r_), float(g_), float(b_)):
                    v.fail("wrong-artwork", fmt, {"source": i, "glyph": gname, "paint": repr(lfs[0].paint) if lfs else None, "want": (r_, g_, b_)})
        except (BadCOLR, UnsupportedPaint, BadSVG, UnsupportedSVG) as e:
            v.fail("bad-colour-table", getattr(e, "kind", type(e).__name__), {"source": i, "msg": str(e)})
    src_glyphs = set(reached.values())
    # codepoints only inside sequences -> blank glyphs
    singles = {s[0] for s in seqs if len(s) == 1}
    for cp in sorted({c for s in seqs for c in s} - singles):
        gn = cmap.get(cp)
        if gn is None:
            v.fail("component-unmapped", "codepoint of a sequence has no cmap entry", {"cp": cp})
        elif gn in src_glyphs or not glyph_is_blank(font, gs, gn, rd):
            v.fail("component-not-blank", "sequence-only codepoint maps to a painted glyph", {"cp": cp, "glyph": gn})
    # only from them
    probes = set()
    for s in seqs:
        for k in range(1, len(s)):
            if tuple(s[:k]) not in tset:
                probes.add(tuple(s[:k]))
        for c in s:
            if (c,) not in tset:
                probes.add((c,))
    for p in sorted(probes)[:40]:
        g = shape(font, list(p))
        if g and len(g) == 1 and g[0] in src_glyphs:
            v.fail("reachable-from-other-text", "a non-source sequence shapes to a source's glyph", {"probe": list(p), "glyph": g[0]})
    v.extra["probes"] = len(probes)
    return v


def shrink(case):
    seqs = case["seqs"]
    share = list(case.get("share") or [False] * len(seqs))
    for i in range(len(seqs)):
        if len(seqs) > 1:
            yield dict(case, seqs=seqs[:i] + seqs[i + 1 :], share=share[:i] + share[i + 1 :])
    for i, s in enumerate(seqs):
        if len(s) > 1:
            for cand in (s[:-1], s[1:]):
                if cand not in seqs:
                    yield dict(case, seqs=seqs[:i] + [cand] + seqs[i + 1 :])
