"""C02 – OT-SVG glyph documents render the same picture as their sources."""
import re

from hypothesis import strategies as st
from lxml import etree

from .. import build
from ..display import Budget, leaves
from ..gen_cfg import OTSVG_PICO, OTSVG_RAW, font_config
from ..gen_cp import sequence_set, simple_cps
from ..gen_svg import fnum, shrink_model
from ..geom import I, amul, parse_transform
from ..ref_svg import BadSVG, SVGDoc, UnsupportedSVG, em_transform
from ..vecoracle import (
    Ref,
    Y_FLIP,
    advance_ok,
    case_classes,
    compare_trees,
    impl_tree,
    is_nontrivial_vector,
    reach,
    reuse_stats,
    source_text,
    svg_doc_for_gid,
    to_build_sources,
)
from ..verdict import Verdict
from . import c01

ID = "C02"
LEVEL = "exploration"
RULE = (
    "picosvg/picosvgz: the C01 generator (sources sets with shared shape libraries so documents group glyphs and the glyph order is "
    "reshuffled, codepoint sequences so GSUB exists) x pretty_print x compression. Oracle: reload the font; gid = shape(cps); the unique "
    "SVG document covering gid must hold exactly one element with id glyph<gid>; that element interpreted by our own SVG interpreter "
    "(<use>/<defs>, inheritance, transforms) in OT-SVG space (x,-y) == reference display tree of the source placed in the em box (user "
    "transform applied in font coordinates as documented). untouchedsvg(z): raw SVGs from a wider grammar (basic shapes, nested groups, "
    "styles, strokes, clipPath, text, use); oracle: the document minus the wrapper <g id=glyphN transform=M> is the source tree with only "
    "width/height/viewBox/enable-background removed (canonical XML), and M equals the viewBox->OT-SVG affine within 3-decimal rounding. "
    "Non-trivial: a document with >= 2 glyph elements, a <use>, a reshuffled glyph order, a ligature sequence, or (raw) a nested transform."
)
ASSUMPTIONS = [
    "fontTools decompiles the SVG table correctly",
    "OT-SVG rendering semantics: one user unit per font unit, y down, origin on the baseline",
    "untouched SVG is judged structurally (same content under the right transform), not rendered",
]
BUDGET = {"quick": 640, "thorough": 24000}
TIMEOUT = {"quick": 900, "thorough": 7200}


def setup_worker():
    build.init()


# ------------------------------------------------------------------------------------------ raw SVG grammar (untouched)
@st.composite
def raw_svg(draw):
    w = draw(st.sampled_from([24, 36, 100, 128, 200, 1000]))
    aspect = draw(st.sampled_from([1.0, 1.0, 0.5, 2.0, 1.5]))
    h = w
    w = int(w * aspect) if aspect != 1.0 else w
    x, y = (0, 0) if draw(st.booleans()) else (draw(st.integers(-200, 200)), draw(st.integers(-200, 200)))
    n = draw(st.integers(1, 5))
    col = lambda: "#%06x" % draw(st.integers(0, 0xFFFFFF))
    ids = iter(range(1000))

    def elem(depth):
        k = draw(st.sampled_from(["rect", "circle", "ellipse", "path", "polygon", "line", "g", "use", "text"] if depth < 2 else ["rect", "circle", "path"]))
        px, py = x + draw(st.integers(0, w)), y + draw(st.integers(0, h))
        s = draw(st.integers(2, max(3, w // 2)))
        sty = draw(st.sampled_from(["", "", ' style="opacity:.5"', ' stroke="black" stroke-width="2"', ' class="a"', ' fill-rule="evenodd"', ' opacity="0.7"']))
        tr = draw(st.sampled_from(["", "", ' transform="translate(%d,%d)"' % (s, -s), ' transform="rotate(30)"', ' transform="matrix(1 0.2 0 1 3 4)"', ' transform="scale(1.5) translate(2 3)"']))
        if k == "rect":
            return '<rect x="%d" y="%d" width="%d" height="%d" rx="%d" fill="%s"%s%s/>' % (px, py, s, s + 1, draw(st.integers(0, 3)), col(), sty, tr)
        if k == "circle":
            return '<circle cx="%d" cy="%d" r="%d" fill="%s"%s%s/>' % (px, py, s, draw(st.sampled_from([col(), "url(#lg)", "currentColor"])), sty, tr)
        if k == "ellipse":
            return '<ellipse cx="%d" cy="%d" rx="%d" ry="%d"%s%s/>' % (px, py, s, s + 2, sty, tr)
        if k == "path":
            return '<path d="M %d %d h %d v %d l -3 -4 z" fill="%s"%s%s/>' % (px, py, s, s, col(), sty, tr)
        if k == "polygon":
            return '<polygon points="%d,%d %d,%d %d,%d"%s%s/>' % (px, py, px + s, py, px + s // 2, py + s, sty, tr)
        if k == "line":
            return '<line x1="%d" y1="%d" x2="%d" y2="%d" stroke="%s"/>' % (px, py, px + s, py + s, col())
        if k == "use":
            return '<use xlink:href="#r" x="%d" y="%d"%s/>' % (px, py, tr)
        if k == "text":
            return '<text x="%d" y="%d">a &amp; b</text>' % (px, py)
        kids = "".join(elem(depth + 1) for _ in range(draw(st.integers(1, 3))))
        cp = draw(st.sampled_from(["", ' clip-path="url(#cp)"']))
        return "<g%s%s%s>%s</g>" % (tr, sty, cp, kids)

    body = "".join(elem(0) for _ in range(n))
    extra = draw(st.sampled_from(["", ' width="64" height="64"', ' enable-background="new 0 0 %d %d"' % (w, h), ' fill="navy"', ' width="1em" height="1em" enable-background="new"']))
    head = draw(st.sampled_from(["", '<?xml version="1.0"?>\n', "<!-- c -->"]))
    meta = draw(st.sampled_from(["", "<title>t</title>", "<style>.a{stroke:red}</style>", "<!-- inner -->"]))
    defs = ('<defs><linearGradient id="lg"><stop offset="0" stop-color="#f00"/><stop offset="1.0" stop-color="blue" stop-opacity="0.50"/></linearGradient>'
            '<clipPath id="cp"><circle cx="%d" cy="%d" r="%d"/></clipPath><rect id="r" width="10" height="10"/></defs>' % (x + w // 2, y + h // 2, w // 3))
    if (x, y) == (0, 0) and draw(st.sampled_from([False, False, False, True])):
        # the box declared by width/height alone (valid SVG; the user-space box is then 0 0 width height)
        keep = extra if "width=" not in extra else ""
        return '%s<svg xmlns="http://www.w3.org/2000/svg" xmlns:xlink="http://www.w3.org/1999/xlink" width="%d" height="%d"%s>%s%s%s</svg>' % (head, w, h, keep, meta, defs, body)
    return '%s<svg xmlns="http://www.w3.org/2000/svg" xmlns:xlink="http://www.w3.org/1999/xlink" viewBox="%d %d %d %d"%s>%s%s%s</svg>' % (head, x, y, w, h, extra, meta, defs, body)


@st.composite
def raw_case(draw, tier):
    cfg = draw(font_config(OTSVG_RAW, transforms=True))
    n = draw(st.integers(1, 5))
    seqs = draw(st.one_of(st.just(None), sequence_set(n)))
    if seqs is None:
        seqs = simple_cps(n)
    return {"raw": True, "cfg": cfg, "sources": [{"svg": draw(raw_svg()), "cps": seqs[i]} for i in range(n)]}


def cases(tier):
    return st.one_of(c01.vector_case(OTSVG_PICO, tier), c01.vector_case(OTSVG_PICO, tier), c01.vector_case(OTSVG_PICO, tier), c01.grid_case(OTSVG_PICO, tier),
                     c01.prefix_pair_case(OTSVG_PICO, tier), c01.paint_variants_case(OTSVG_PICO, tier), c01.overlay_case(OTSVG_PICO, tier), c01.far_reuse_case(OTSVG_PICO, tier), c01.sandwich_case(OTSVG_PICO, tier), c01.inplace_reuse_case(OTSVG_PICO, tier), raw_case(tier), raw_case(tier))


def enumerate_cases(tier):
    yield from c01.css_name_rows(["picosvg"])
    yield from c01.origin_rows(["picosvg"])


def shrink(case):
    if case.get("raw"):
        srcs = case["sources"]
        for i in range(len(srcs)):
            if len(srcs) > 1:
                yield dict(case, sources=srcs[:i] + srcs[i + 1 :])
        return
    yield from c01.shrink(case)


sample_repr = c01.sample_repr


# ------------------------------------------------------------------------------------------ oracles
def _canon(el):
    """Canonical form of an element tree: (tag, sorted attrs, text, children) ignoring inter-element whitespace/comments."""
    kids = [_canon(c) for c in el if isinstance(c.tag, str)]
    text = (el.text or "").strip() if not kids or (el.text or "").strip() else ""
    return (el.tag, tuple(sorted(el.attrib.items())), text, tuple(kids), (el.tail or "").strip())


DROPPED_ROOT_ATTRS = {"width", "height", "viewBox", "enable-background"}


def judge_raw(case, v):
    cfg = case["cfg"]
    v.cls("fmt:" + cfg["color_format"], "raw")
    srcs = case["sources"]
    r = build.build_font(cfg, srcs)
    if r.error is not None:
        emh = cfg["ascender"] - cfg["descender"]
        if max(cfg["width"], emh * 4, cfg["upem"]) > 16000:
            v.rejected = type(r.error).__name__ + "(out-of-range metrics)"
            return
        v.fail("spurious-rejection", type(r.error).__name__ + ":" + str(r.error)[:60], {"error": repr(r.error)[:400]})
        return
    font = r.font
    if "SVG " not in font:
        v.fail("no-svg-table", "table", {})
        return
    nglyph_docs = len(font["SVG "].docList)
    user = tuple(float(x) for x in cfg["transform"])
    order_changed = False
    for i, s in enumerate(srcs):
        gname, why = reach(font, s["cps"])
        if gname is None:
            v.fail("unreachable", why, {"source": i, "cps": s["cps"]})
            continue
        gid = font.getGlyphID(gname)
        try:
            hit = svg_doc_for_gid(font, gid)
        except BadSVG as e:
            v.fail("bad-svg", e.kind, {"source": i, "msg": str(e)})
            continue
        if hit is None:
            v.fail("no-document", "no SVG document covers the glyph", {"source": i, "gid": gid})
            continue
        doc = etree.fromstring(hit[0].encode("utf-8"))
        els = [e for e in doc.iter() if isinstance(e.tag, str) and e.get("id") == "glyph%d" % gid]
        if len(els) != 1:
            v.fail("glyph-id-count", "%d elements with id glyph<gid>" % len(els), {"source": i, "gid": gid})
            continue
        g = els[0]
        src_root = etree.fromstring(re.sub(r"^<\?xml[^>]*\?>", "", s["svg"]).encode("utf-8"))
        if src_root.get("viewBox") is not None:
            vb = tuple(float(x) for x in src_root.get("viewBox").split())
        else:  # no viewBox attribute: the box is 0 0 width height (SVG 1.1, 7.7 / 7.2)
            v.cls("raw:no-viewBox-attribute")
            vb = (0.0, 0.0, float(src_root.get("width")), float(src_root.get("height")))
        adv = font["hmtx"][gname][0]
        if not advance_ok(cfg, vb, adv):
            v.fail("advance", "advance-rule", {"source": i, "got": adv, "vb": vb})
        # placement: wrapper transform == viewBox -> OT-SVG affine (font-space rule followed by the y flip)
        m_font, _ = em_transform(vb, cfg["ascender"], cfg["descender"], cfg["width"], user, advance=adv)
        want = amul(Y_FLIP, m_font)
        if etree.QName(g).localname != "g":
            v.fail("wrapper", "glyph element is not a <g>", {"source": i, "tag": g.tag})
            continue
        got = parse_transform(g.get("transform"))
        # 3-decimal rounding of matrix entries; translation entries scale with the coordinates they place
        ext = max(abs(vb[0]) + vb[2], abs(vb[1]) + vb[3])
        err = max(abs(a - b) for a, b in zip(got[:4], want[:4])) * ext + max(abs(got[4] - want[4]), abs(got[5] - want[5]))
        tol = 0.0005 * (ext * 4 + 2) + 1e-6
        v.margin = max(v.margin, min(err / tol, 50.0))
        if err > tol:
            v.fail("placement", "wrapper transform != viewBox->OT-SVG affine", {"source": i, "got": got, "want": want, "err": err, "tol": tol, "user": user})
        # content identity
        want_root = etree.Element(src_root.tag, {k: val for k, val in src_root.attrib.items() if k not in DROPPED_ROOT_ATTRS}, nsmap=src_root.nsmap)
        want_kids = tuple(_canon(c) for c in src_root if isinstance(c.tag, str))
        got_kids = tuple(_canon(c) for c in g if isinstance(c.tag, str))
        if want_kids != got_kids:
            v.fail("content-changed", "children of the glyph group differ from the source", {"source": i, "want": str(want_kids)[:600], "got": str(got_kids)[:600]})
        root_attrs = {k: val for k, val in doc.attrib.items()}
        for k, val in want_root.attrib.items():
            if root_attrs.get(k) != val and g.get(k) != val:
                v.fail("root-attribute-lost", k, {"source": i, "attr": k, "want": val, "doc_root": root_attrs, "wrapper": dict(g.attrib)})
        if i != gid - min(font.getGlyphID(reach(font, t["cps"])[0]) for t in srcs if reach(font, t["cps"])[0]):
            order_changed = True
    v.nontrivial = len(srcs) >= 2 or any("transform=" in s["svg"] for s in srcs) or any(len(s["cps"]) > 1 for s in srcs)
    if order_changed:
        v.cls("order-differs-from-input")


def judge(case):
    v = Verdict()
    if case.get("raw"):
        judge_raw(case, v)
        return v
    cfg = case["cfg"]
    case_classes(case, v)
    srcs = to_build_sources(case)
    refs = [Ref(s["svg"], cfg) for s in srcs]
    if max([rf.max_coord() for rf in refs] + [0.0]) > c01.DOMAIN_COORD:
        # outside what OpenType outlines can express at all (glyf stores int16 *deltas*: an extent > 32767 cannot be encoded)
        v.discard = "reference geometry beyond %d font units" % c01.DOMAIN_COORD
        return v
    r = build.build_font(cfg, srcs)
    if r.error is not None:
        c01.judge_rejection(v, r, refs, cfg)
        return v
    font = r.font
    if "SVG " not in font:
        if all(not rf.tree for rf in refs):
            v.discard = "nothing painted"
            return v
        v.fail("no-svg-table", "table", {"tables": sorted(font.keys())})
        return v
    cache = {}
    trees = []
    gids = []
    multi = False
    user_t = list(cfg.get("transform") or [1, 0, 0, 1, 0, 0])
    for i, (s, rf) in enumerate(zip(srcs, refs)):
        gname, why = reach(font, s["cps"])
        if gname is None:
            v.fail("unreachable", why, {"source": i, "cps": s["cps"]})
            continue
        adv = font["hmtx"][gname][0]
        if not advance_ok(cfg, rf.vb, adv):
            v.fail("advance", "advance-rule", {"source": i, "got": adv, "vb": rf.vb})
        gid = font.getGlyphID(gname)
        gids.append(gid)
        try:
            impl, _ = impl_tree(font, gname, doc_cache=cache)
        except BadSVG as e:
            v.fail("bad-svg", e.kind, {"source": i, "gid": gid, "msg": str(e)})
            continue
        except UnsupportedSVG as e:
            v.fail("unsupported-in-output", str(e)[:60], {"source": i, "gid": gid})
            continue
        trees.append(impl)
        bud = Budget("otsvg", cfg["upem"], cfg["reuse_tolerance"], rf.scale * rf.user_norm)
        res, margin = compare_trees(impl, rf.tree, bud)
        v.margin = max(v.margin, margin if not res else 0.0)
        for kind, path, detail in res[:3]:
            v.fail(kind, kind, {"source": i, "path": path, "detail": detail, "user": user_t})
    for text, d in cache.items():
        if len(re.findall(r'id="glyph\d+"', text)) >= 2:
            multi = True
        if d.dup_ids:
            v.fail("duplicate-id", "duplicate ids in one document", {"ids": d.dup_ids[:5]})
    rs = reuse_stats(trees)
    if rs["shared"]:
        v.cls("use-shared-target")
    if rs["transformed"]:
        v.cls("use-transformed")
    if multi:
        v.cls("multi-glyph-document")
    if gids != sorted(gids):
        v.cls("order-differs-from-input")
    if any(len(s["cps"]) > 1 for s in srcs):
        v.cls("ligature")
    v.nontrivial = multi or rs["shared"] > 0 or gids != sorted(gids) or any(len(s["cps"]) > 1 for s in srcs) or is_nontrivial_vector(case)
    return v
