"""C01 – COLRv1 glyph paints the same picture as its source SVG."""
import math

from hypothesis import strategies as st

from .. import build
from ..display import Budget, leaves
from ..gen_cfg import COLR1, font_config
from ..gen_cp import sequence_set, simple_cps
from ..gen_svg import font_palette, shape_library, shrink_model, source_model
from ..ref_colr import BadCOLR, ColrReader, UnsupportedPaint
from ..vecoracle import (
    Ref,
    advance_ok,
    case_classes,
    compare_trees,
    is_nontrivial_vector,
    reach,
    reuse_stats,
    to_build_sources,
)
from ..verdict import Verdict

ID = "C01"
LEVEL = "exploration"
RULE = (
    "Hypothesis draws a font configuration (COLRv1 flavours; metrics, width incl. 0, user transform, reuse tolerance, "
    "clip-box quantisation), 1-6 (thorough: 1-10) picosvg-normal sources (shapes from a grammar, optionally from a shared "
    "shape library under drawn affines so cross-glyph reuse fires; solid/currentColor/palette-variable fills, linear and "
    "radial gradients in both unit systems with gradientTransform, spreadMethod, focal point, stop opacity; opacity groups; "
    "any viewBox origin/aspect) and codepoint sequences. Oracle: display tree of the reloaded COLRv1 glyph reached by shaping "
    "(own COLR interpreter) == display tree of the source (own SVG interpreter) mapped by the em-box rule of the statement, "
    "layer-wise, within encoding-derived tolerances; advance rule; clip box must not cut the reference. A case is non-trivial "
    "if it has a gradient, a group, a non-square or offset viewBox, a user transform, or reuse fired; distinct by SHA-1 of the case."
)
ASSUMPTIONS = [
    "fontTools decompiles COLR/CPAL/glyf/CFF correctly",
    "reference SVG and COLR interpreters in /verif/vlib (cross-checked against resvg and fontTools getTransform)",
    "gradients with degenerate vectors, focal circle outside the end circle and unsorted stops are excluded (reference semantics renderer-dependent)",
]
BUDGET = {"quick": 640, "thorough": 24000}
TIMEOUT = {"quick": 900, "thorough": 7200}
FORMATS = COLR1


def setup_worker():
    build.init()
    from ..ref_colr import self_test

    self_test()


@st.composite
def vector_case(draw, formats, tier, max_sources=None, solid_only=False, allow_groups=True, transforms=True, p_grad=0.4,
                lib_always=False, place_classes=None, lib_prob=0.6, tolerances=None, kinds=None, min_sources=1):
    cfg = draw(font_config(formats, transforms=transforms))
    palette = draw(font_palette())
    nmax = max_sources or (6 if tier == "quick" else 10)
    n = draw(st.integers(min(min_sources, nmax), nmax))
    lib = draw(shape_library(kinds=kinds)) if lib_always or draw(st.integers(0, 2)) == 0 or n == 1 and draw(st.booleans()) else None
    if tolerances is not None:
        cfg["reuse_tolerance"] = draw(st.sampled_from(tolerances))
    share_vb = draw(st.booleans())
    vb0 = None
    paint_lib = None
    if share_vb and not solid_only and draw(st.booleans()):
        from ..gen_svg import gradient_paint

        paint_lib = [dict(draw(gradient_paint(palette, (10.0, 10.0, 60.0, 70.0))), units="user") for _ in range(draw(st.integers(1, 2)))]
        for pl in paint_lib:
            # userSpaceOnUse geometry is given in absolute numbers: make it fit a generic 24..2048 viewBox region
            pass
    sources = []
    seqs = draw(st.one_of(st.just(None), st.just(None), sequence_set(n)))
    if seqs is None:
        seqs = simple_cps(n)
    for i in range(n):
        m = draw(source_model(palette, lib, vb=vb0 if share_vb else None, max_shapes=5 if tier == "quick" else 8,
                              solid_only=solid_only, allow_groups=allow_groups, p_grad=p_grad, place_classes=place_classes, lib_prob=lib_prob, paint_lib=paint_lib))
        if share_vb and vb0 is None:
            vb0 = m["vb"]
        if n > 1 and i > 0 and draw(st.sampled_from([False] * 14 + [True])):
            m = dict(m, nodes=[])  # a source that paints nothing
        sources.append({"model": m, "cps": seqs[i]})
    return {"cfg": cfg, "sources": sources}


@st.composite
def grid_case(draw, formats, tier, tolerances=None):
    """Artwork on an integer grid with an em box that maps the viewBox 1:1 (or by a small integer factor): rectangles, triangles
    and bars that are axis-aligned stretches / mirrors / shifts of one another. This is where the reuse transform has a scale of
    exactly 1 on one axis, an integral centre, an integral translation - the specialised PaintScale*/PaintTranslate encodings -
    which free-floating coordinates essentially never produce."""
    k = draw(st.sampled_from([1, 1, 2, 10]))
    vbs = draw(st.sampled_from([100, 100, 128, 1000]))
    desc = -draw(st.sampled_from([0, 0, 20 * k, 25 * k]))
    asc = vbs * k + desc
    cfg = {"upem": draw(st.sampled_from([vbs * k, 1000, 1024])), "ascender": asc, "descender": desc, "width": draw(st.sampled_from([0, vbs * k, vbs * k + 50])), "linegap": 0,
           "color_format": draw(st.sampled_from(list(formats))), "transform": [1, 0, 0, 1, 0, 0], "reuse_tolerance": draw(st.sampled_from(tolerances or [0.1, 0.1, 0.5])),
           "clipbox_quantization": draw(st.sampled_from([None, 1, 10])), "keep_glyph_names": draw(st.booleans()), "pretty_print": False}
    u = vbs // 20
    base_kind = draw(st.sampled_from(["rect", "tri", "lshape"]))
    bw, bh = draw(st.integers(2, 5)) * u, draw(st.integers(2, 5)) * u

    def base(x, y, w, h, mx=False, my=False):
        if base_kind == "rect":
            pts = [(0, 0), (w, 0), (w, h), (0, h)]
        elif base_kind == "tri":
            pts = [(0, 0), (w, 0), (0, h)]
        else:
            pts = [(0, 0), (w, 0), (w, h // 2), (w // 2, h // 2), (w // 2, h), (0, h)]
        out = []
        for px, py in pts:
            px = w - px if mx else px
            py = h - py if my else py
            out.append((x + px, y + py))
        return [["M", float(out[0][0]), float(out[0][1])]] + [["L", float(a), float(b)] for a, b in out[1:]] + [["Z"]]

    n = draw(st.integers(1, 4))
    palette = {}
    sources = []
    first = None
    # the point of the viewBox that lands on the font origin (left end of the baseline): a copy scaled uniformly about it is
    # placed by a scale with no translation at all (PaintScaleUniform), about any other point by PaintScaleUniformAroundCenter
    origin = (-max(0.0, (cfg["width"] - vbs * k) / 2.0) / k, vbs + desc / k)
    for i in range(n):
        nodes = []
        for _ in range(draw(st.integers(1, 4))):
            kind = draw(st.sampled_from(["same", "shift", "stretch_x", "stretch_y", "mirror_x", "mirror_y", "stretch_both", "scale_origin", "scale_origin"]))
            if first is None:
                kind = "same"
            if kind == "scale_origin":
                f_ = draw(st.sampled_from([0.5, 0.75, 1.25, 1.5, "mirror"]))
                ox, oy = origin if draw(st.sampled_from([True, True, False])) else (float(draw(st.integers(0, 10)) * u), float(draw(st.integers(0, 20)) * u))
                if f_ == "mirror":
                    # the mirror image across the horizontal line through that point: about the baseline it is scale(1, -1), nothing else
                    cmds = [[c[0]] + ([c[1], 2 * oy - c[2]] if len(c) == 3 else []) for c in first]
                else:
                    cmds = [[c[0]] + ([ox + f_ * (c[1] - ox), oy + f_ * (c[2] - oy)] if len(c) == 3 else []) for c in first]
                from ..gen_svg import cmds_bbox as _bb

                bb_ = _bb(cmds)
                if bb_[0] >= 0 and bb_[1] >= 0 and bb_[2] <= vbs and bb_[3] <= vbs:
                    nodes.append({"t": "p", "d": cmds, "fill": draw(paint_grid(bb_)), "op": 1.0, "tag": "lib0:grid_" + kind})
                    continue
                kind = "shift"
            w, h = bw, bh
            if kind in ("stretch_x", "stretch_both"):
                w = draw(st.sampled_from([bw // 2 or 1, bw * 2, bw * 3 // 2 or 1]))
            if kind in ("stretch_y", "stretch_both"):
                h = draw(st.sampled_from([bh // 2 or 1, bh * 2, bh * 3 // 2 or 1]))
            x, y = draw(st.integers(0, 14)) * u, draw(st.integers(0, 14)) * u
            cmds = base(x, y, w, h, kind == "mirror_x", kind == "mirror_y")
            if first is None:
                first = cmds
            from ..gen_svg import cmds_bbox as _bb

            nodes.append({"t": "p", "d": cmds, "fill": draw(paint_grid(_bb(cmds))), "op": 1.0, "tag": "lib0:grid_" + kind})
        sources.append({"model": {"vb": [0.0, 0.0, float(vbs), float(vbs)], "nodes": nodes}, "cps": [0xE000 + i]})
    return {"cfg": cfg, "sources": sources}


def css_name_rows(formats):
    """Enumerated: every CSS colour keyword once as a solid fill (and once as a gradient stop where the format has gradients),
    ten per glyph on a 100-unit grid, for each listed format. The reference reads the names from PIL's table (A41)."""
    from ..gen_svg import CSS_NAMES

    for fmt in formats:
        grads = not ("colr_0" in fmt or fmt in ("glyf", "cff", "cff2"))
        for at in range(0, len(CSS_NAMES), 30):
            chunk = CSS_NAMES[at:at + 30]
            sources = []
            for g in range(0, len(chunk), 10):
                nodes = []
                for j, nm in enumerate(chunk[g:g + 10]):
                    x, y = 5.0 + 18.0 * (j % 5), 10.0 + 40.0 * (j // 5)
                    cmds = [["M", x, y], ["L", x + 14.0, y], ["L", x + 14.0, y + 25.0 + j], ["L", x, y + 25.0 + j], ["Z"]]
                    fill = {"k": "solid", "c": nm}
                    if grads and j % 2:
                        fill = {"k": "lin", "units": "user", "x1": x, "y1": y, "x2": x + 14.0, "y2": y, "spread": "pad", "gt": None,
                                "stops": [[0.0, nm, 1.0], [1.0, "#102030", 1.0]]}
                    nodes.append({"t": "p", "d": cmds, "fill": fill, "op": 1.0, "tag": "own:css"})
                sources.append({"model": {"vb": [0.0, 0.0, 100.0, 100.0], "nodes": nodes}, "cps": [0xE000 + len(sources)]})
            yield {"cfg": {"upem": 1000, "ascender": 800, "descender": -200, "width": 1000, "linegap": 0, "color_format": fmt, "transform": [1, 0, 0, 1, 0, 0],
                           "reuse_tolerance": 0.1, "clipbox_quantization": None, "keep_glyph_names": True, "pretty_print": False}, "sources": sources}


def origin_rows(formats):
    """Enumerated: copies that the encoder places by a transform *without translation* about the font origin - the exact mirror
    image across the baseline (scale(1,-1)), uniform scales 1.5 and 0.5 about the origin, a half-turn about it is outside the
    viewBox - each in a glyph of its own after the glyph that holds the original. Free-floating and even grid artwork reach
    these branches a few times per thousand cases only."""
    L = [(10.0, 62.0), (30.0, 62.0), (30.0, 68.0), (16.0, 68.0), (16.0, 78.0), (10.0, 78.0)]
    oy = 80.0  # viewBox 100 high, ascender 800, descender -200 at 10 units per source unit: the baseline is y = 80

    def path(pts, colour):
        return {"t": "p", "d": [["M", pts[0][0], pts[0][1]]] + [["L", x, y] for x, y in pts[1:]] + [["Z"]], "fill": {"k": "solid", "c": colour}, "op": 1.0, "tag": "lib0:origin"}

    variants = [("mirror", [(x, 2 * oy - y) for x, y in L]), ("x1.5", [(1.5 * x, oy + 1.5 * (y - oy)) for x, y in L]), ("x0.5", [(0.5 * x, oy + 0.5 * (y - oy)) for x, y in L])]
    for fmt in formats:
        sources = [{"model": {"vb": [0.0, 0.0, 100.0, 100.0], "nodes": [path(L, "#c03020")]}, "cps": [0xE000]}]
        for i, (_, pts) in enumerate(variants):
            sources.append({"model": {"vb": [0.0, 0.0, 100.0, 100.0], "nodes": [path(pts, "#2040%02x" % (80 + 50 * i)), path([(60.0, 20.0 + 5 * i), (90.0, 22.0), (70.0, 45.0)], "#40a040")]}, "cps": [0xE001 + i]})
        yield {"cfg": {"upem": 1000, "ascender": 800, "descender": -200, "width": 1000, "linegap": 0, "color_format": fmt, "transform": [1, 0, 0, 1, 0, 0],
                       "reuse_tolerance": 0.1, "clipbox_quantization": None, "keep_glyph_names": True, "pretty_print": False}, "sources": sources}


@st.composite
def paint_grid(draw, bbox):
    from ..gen_svg import gradient_paint

    if draw(st.sampled_from([True, True, False])):
        return {"k": "solid", "c": "#%06x" % draw(st.integers(0, 0xFFFFFF))}
    return draw(gradient_paint({}, bbox))


@st.composite
def prefix_pair_case(draw, formats, tier):
    """Two glyphs whose names are in a prefix relation (U+1F44D and U+1F44D U+1F3FB: g_1f44d / g_1f44d_1f3fb; or, from a custom
    glyph map, face / face.alt), the longer one first in the input, sharing one shape that nobody else uses - plus unrelated glyphs. Name-based reasoning about which glyph
    owns a shape is exercised here."""
    from ..gen_svg import placement, transform_cmds, unit_shape, cmds_bbox

    case = draw(vector_case(formats, tier, max_sources=3))
    base = draw(st.sampled_from([[0x1F44D], [0x41], [0x1F1E6]]))
    ext = base + draw(st.sampled_from([[0x1F3FB], [0x200D, 0x1F525], [0xFE0F]]))
    vb = case["sources"][0]["model"]["vb"]
    unit = draw(unit_shape(("polygon", "cubic", "quad")))
    size = draw(st.floats(0.08, 0.2)) * min(vb[2], vb[3])
    pair = []
    for cps in (ext, base):
        _, m = draw(placement(vb, "translate", size=size))
        cmds = transform_cmds(unit, m)
        fill = {"k": "solid", "c": "#%06x" % draw(st.integers(0, 0xFFFFFF))} if draw(st.booleans()) else draw(paint_grid(cmds_bbox(cmds)))
        nodes = [{"t": "p", "d": cmds, "fill": fill, "op": 1.0, "tag": "lib9:translate"}]
        if draw(st.booleans()):
            other = draw(source_model({}, None, vb=vb, max_shapes=2, allow_groups=False))
            nodes = nodes + other["nodes"] if draw(st.booleans()) else other["nodes"] + nodes
        pair.append({"model": {"vb": vb, "nodes": nodes}, "cps": cps})
    if draw(st.sampled_from([False, True])):
        # names as a custom glyph map gives them: a base glyph and its dotted alternate ("face.alt", "face.alt.ss01")
        stem = draw(st.sampled_from(["face", "hand", "g"]))
        pair[0]["name"] = stem + draw(st.sampled_from([".alt", ".alt.ss01", ".1"]))
        pair[1]["name"] = stem
        case["cfg"]["keep_glyph_names"] = True
    used = {tuple(s["cps"]) for s in pair}
    if pair[1].get("name") == "g":
        used.add((0x67,))  # U+0067 alone is named "g" by default: two inputs for one glyph name is a (correct) refusal (A42)
    rest = [s for s in case["sources"] if tuple(s["cps"]) not in used]
    k = draw(st.integers(0, len(rest)))
    case["sources"] = rest[:k] + pair + rest[k:]
    return case


@st.composite
def far_reuse_case(draw, formats, tier, tolerances=None):
    """A big shape drawn first and a copy k = 8..200 times smaller (same or another glyph) that is filled with a userSpaceOnUse
    gradient spanning the viewBox. Painting the copy with the donor's outline means mapping the gradient by the *inverse* of
    the reuse transform: its coordinates are multiplied by k and leave int16 - the encoder's fallback for a gradient that
    does not fit (write_font._migrate_paths_to_ufo_glyphs) is taken, which floating artwork in a unit viewBox never reaches."""
    from ..gen_svg import cmds_bbox, gradient_paint, transform_cmds, unit_shape
    from ..geom import rotate

    upem = draw(st.sampled_from([1000, 1024, 2048, 4096, 8192]))
    desc = -draw(st.sampled_from([0, 0, upem // 5]))
    asc = upem + desc if draw(st.booleans()) else draw(st.integers(upem * 3 // 4, upem))
    cfg = {"upem": upem, "ascender": asc, "descender": desc, "width": draw(st.sampled_from([0, upem, upem // 2])), "linegap": 0,
           "color_format": draw(st.sampled_from(list(formats))), "transform": [1, 0, 0, 1, 0, 0], "reuse_tolerance": draw(st.sampled_from(tolerances or [0.1, 0.1, 0.5])),
           "clipbox_quantization": draw(st.sampled_from([None, 1, 32])), "keep_glyph_names": draw(st.booleans()), "pretty_print": False}
    vbs = float(draw(st.sampled_from([100, 128, 1000, 24])))
    vb = [0.0, 0.0, vbs, vbs]
    unit = draw(unit_shape(("polygon", "cubic", "quad", "rect")))
    R = draw(st.floats(0.25, 0.4)) * vbs
    # The reuse transform is x -> (x - e) / k + ..., its inverse translates by about -k * (copy centre): reuse is abandoned when
    # that leaves 16.16, so the copy sits within 32768 / k of the font origin (left end of the baseline) while gradient points
    # further away than that overflow int16 once multiplied by k.
    emh = asc - desc
    f = draw(st.sampled_from([0.25, 0.4, 0.6, 0.9]))
    k = max(3, int(32768 / (f * emh)))
    big = transform_cmds(unit, (R, 0, 0, R, vbs * draw(st.floats(0.42, 0.58)), vbs * draw(st.floats(0.42, 0.58))))
    kind = draw(st.sampled_from(["scale", "scale", "mirror", "rot90"]))
    r = R / k
    m = {"scale": (r, 0, 0, r), "mirror": (-r, 0, 0, r), "rot90": (0, r, -r, 0)}[kind]
    near = draw(st.sampled_from([0.5, 0.8, 0.8, 1.3]))
    # near = 1.3: the copy really lies beyond 32768 / k on one axis or both (the inverse of the reuse transform leaves 16.16 and
    # reuse has to be abandoned for a gradient fill, while the forward transform still fits)
    lo, hi = (0.6, 1.0) if near > 1 else (0.1, 0.7)
    sx = min(vbs * f * near * draw(st.floats(lo if draw(st.booleans()) else 0.1, hi)), 0.98 * vbs)
    sy = vbs * (asc / emh - f * near * draw(st.floats(-0.2 if near <= 1 else lo, hi)))
    small = transform_cmds(unit, m + (sx, min(max(sy, 0.02 * vbs), 0.98 * vbs)))
    span = (vbs * draw(st.floats(0.0, 0.3)), vbs * draw(st.floats(0.0, 0.3)), vbs * draw(st.floats(0.7, 1.0)), vbs * draw(st.floats(0.7, 1.0)))
    grad = draw(gradient_paint({}, span).filter(lambda p: p["units"] == "user"))
    if draw(st.booleans()):
        grad["gt"] = None
    bigfill = {"k": "solid", "c": "#%06x" % draw(st.integers(0, 0xFFFFFF))} if draw(st.booleans()) else draw(paint_grid(cmds_bbox(big)))
    donor = {"t": "p", "d": big, "fill": bigfill, "op": 1.0, "tag": "lib0:identity"}
    copy = {"t": "p", "d": small, "fill": grad, "op": 1.0, "tag": "lib0:far_" + kind}
    if draw(st.booleans()):
        sources = [{"model": {"vb": vb, "nodes": [donor, copy]}, "cps": [0xE000]}]
    else:
        sources = [{"model": {"vb": vb, "nodes": [donor]}, "cps": [0xE000]}, {"model": {"vb": vb, "nodes": [copy]}, "cps": [0xE001]}]
    return {"cfg": cfg, "sources": sources}


@st.composite
def paint_variants_case(draw, formats, tier, tolerances=None):
    """One base gradient and 1-3 near-duplicates of it on different shapes of one glyph (sometimes spread over two glyphs that
    share an outline, hence one OT-SVG document): each duplicate differs from the base in exactly one respect - the tilt or
    squash of an elliptical gradientTransform about the gradient's centre or about the user-space origin, the spread method,
    one stop colour, one stop opacity, the radius / end point. Whatever an encoder remembers about a gradient it has
    already written (ids in a document, palette entries, colour lines) must tell these apart."""
    from ..gen_svg import cmds_bbox, placement, stops_st, transform_cmds, unit_shape, view_box
    from ..geom import achain, rotate, scale, translate

    cfg = draw(font_config(formats, transforms=False, max_upem=4096))
    if tolerances is not None:
        cfg["reuse_tolerance"] = draw(st.sampled_from(tolerances))
    vb = draw(view_box())
    ext = max(vb[2], vb[3])
    anchor = draw(st.sampled_from(["origin", "centre", "y0", "free"]))
    if anchor == "origin":
        cx, cy = 0.0, 0.0
    elif anchor == "centre":
        cx, cy = vb[0] + vb[2] / 2, vb[1] + vb[3] / 2
    elif anchor == "y0":
        cx, cy = round(vb[0] + draw(st.floats(0.2, 0.8)) * vb[2], 3), 0.0
    else:
        cx, cy = round(vb[0] + draw(st.floats(0.1, 0.9)) * vb[2], 3), round(vb[1] + draw(st.floats(0.1, 0.9)) * vb[3], 3)
    far = math.hypot(max(abs(vb[0] - cx), abs(vb[0] + vb[2] - cx)), max(abs(vb[1] - cy), abs(vb[1] + vb[3] - cy)))
    stops = draw(stops_st({}))
    spread = draw(st.sampled_from(["pad", "reflect", "repeat"]))
    if draw(st.sampled_from([True, True, False])):
        base = {"k": "rad", "units": "user", "spread": spread, "stops": stops, "cx": cx, "cy": cy, "r": round(far * draw(st.floats(0.5, 1.1)), 3),
                "fx": cx, "fy": cy, "fr": 0.0, "gt": None}
    else:
        ang = draw(st.floats(0, 2 * math.pi))
        ln = far * draw(st.floats(0.4, 1.0))
        base = {"k": "lin", "units": "user", "spread": spread, "stops": stops, "x1": cx, "y1": cy,
                "x2": round(cx + ln * math.cos(ang), 3), "y2": round(cy + ln * math.sin(ang), 3), "gt": None}

    def about(m, px, py):
        return [round(v, 6) for v in achain(translate(-px, -py), m, translate(px, py))]

    def variant(kind):
        p = dict(base, stops=[list(x) for x in base["stops"]])
        sy = draw(st.sampled_from([0.4, 0.5, 0.6, 0.75]))
        th = float(draw(st.sampled_from([20, 45, 70, 110, -30])))
        if kind == "tilt":
            p["gt"] = about(achain(scale(1.0, sy), rotate(th)), cx, cy)
        elif kind == "squash":
            p["gt"] = about(scale(1.0, sy), cx, cy)
        elif kind == "squash_x":
            p["gt"] = about(scale(sy, 1.0), cx, cy)
        elif kind == "origin_linear":
            p["gt"] = [round(v, 6) for v in achain(scale(1.0, sy), rotate(th))]
        elif kind == "spread":
            p["spread"] = {"pad": "reflect", "reflect": "repeat", "repeat": "pad"}[p["spread"]]
        elif kind == "stop_color":
            p["stops"][draw(st.integers(0, len(p["stops"]) - 1))][1] = "#%06x" % draw(st.integers(0, 0xFFFFFF))
        elif kind == "stop_opacity":
            j = draw(st.integers(0, len(p["stops"]) - 1))
            p["stops"][j][2] = 0.35 if p["stops"][j][2] > 0.6 else 1.0
        elif kind == "size":
            if p["k"] == "rad":
                p["r"] = round(p["r"] * 1.3, 3)
            else:
                p["x2"], p["y2"] = round(cx + (p["x2"] - cx) * 1.3, 3), round(cy + (p["y2"] - cy) * 1.3, 3)
        return p

    kinds = ["base"] + draw(st.lists(st.sampled_from(["tilt", "tilt", "squash", "squash", "squash_x", "origin_linear", "spread", "stop_color", "stop_opacity", "size"]), min_size=1, max_size=3))
    if draw(st.booleans()):
        kinds[0] = draw(st.sampled_from(["tilt", "squash"]))  # the first one written is elliptical too
    order = draw(st.permutations(kinds))
    shared = draw(unit_shape(("polygon", "cubic", "rect")))
    nodes = []
    for k in order:
        unit = shared if draw(st.sampled_from([False, False, True])) else draw(unit_shape(("polygon", "cubic", "quad", "rect", "ellipse")))
        _, m = draw(placement(vb, "translate", size=draw(st.floats(0.1, 0.3)) * min(vb[2], vb[3])))
        nodes.append({"t": "p", "d": transform_cmds(unit, m), "fill": variant(k) if k != "base" else dict(base), "op": 1.0, "tag": "variant:" + k})
    if len(nodes) >= 3 and draw(st.booleans()):
        # two glyphs; a copy of the shared outline in each keeps them in one OT-SVG document
        _, m1 = draw(placement(vb, "translate", size=0.12 * min(vb[2], vb[3])))
        _, m2 = draw(placement(vb, "translate", size=0.12 * min(vb[2], vb[3])))
        link = lambda m: {"t": "p", "d": transform_cmds(shared, m), "fill": {"k": "solid", "c": "#336699"}, "op": 1.0, "tag": "lib0:translate"}
        sources = [{"model": {"vb": vb, "nodes": [link(m1)] + nodes[:2]}, "cps": [0xE000]}, {"model": {"vb": vb, "nodes": nodes[2:] + [link(m2)]}, "cps": [0xE001]}]
    else:
        sources = [{"model": {"vb": vb, "nodes": nodes}, "cps": [0xE000]}]
    return {"cfg": cfg, "sources": sources}


@st.composite
def overlay_case(draw, formats, tier, tolerances=None):
    """The way artwork is usually shaded: one outline drawn twice at the same place, flat fill below and a gradient overlay above
    (reuse by the identity transform, with a gradient - often an elliptical radial one - on the copy), in one glyph or split
    over two; plus a glyph that shares no outline with them but uses the very same gradient."""
    from ..gen_svg import cmds_bbox, gradient_paint, placement, transform_cmds, unit_shape, view_box

    cfg = draw(font_config(formats, transforms=False, max_upem=4096))
    if tolerances is not None:
        cfg["reuse_tolerance"] = draw(st.sampled_from(tolerances))
    vb = draw(view_box())
    unit = draw(unit_shape(("polygon", "cubic", "quad", "rect", "ellipse")))
    _, m = draw(placement(vb, draw(st.sampled_from(["translate", "nuscale", "nuscale", "rotate"]))))
    cmds = transform_cmds(unit, m)
    grad = draw(gradient_paint({}, cmds_bbox(cmds)))
    if grad["k"] != "rad" and draw(st.booleans()):
        grad = draw(gradient_paint({}, cmds_bbox(cmds)).filter(lambda p: p["k"] == "rad"))
    flat = {"t": "p", "d": cmds, "fill": {"k": "solid", "c": "#%06x" % draw(st.integers(0, 0xFFFFFF))}, "op": 1.0, "tag": "lib0:identity"}
    over = {"t": "p", "d": [list(c) for c in cmds], "fill": grad, "op": draw(st.sampled_from([1.0, 1.0, 0.6])), "tag": "lib0:identity"}
    other_unit = draw(unit_shape(("polygon", "rect")))
    _, m2 = draw(placement(vb, "translate"))
    lone = {"t": "p", "d": transform_cmds(other_unit, m2), "fill": dict(grad, units="user") if grad["units"] == "user" else dict(grad), "op": 1.0, "tag": "fresh"}
    layout = draw(st.sampled_from(["one", "one", "two", "two+lone", "one+lone"]))
    if layout.startswith("one"):
        sources = [{"model": {"vb": vb, "nodes": [flat, over]}, "cps": [0xE000]}]
    else:
        sources = [{"model": {"vb": vb, "nodes": [flat]}, "cps": [0xE000]}, {"model": {"vb": vb, "nodes": [over]}, "cps": [0xE001]}]
    if layout.endswith("lone"):
        sources.append({"model": {"vb": vb, "nodes": [lone]}, "cps": [0xE002]})
    return {"cfg": cfg, "sources": sources}


@st.composite
def sandwich_case(draw, formats, tier, tolerances=None):
    """A run of overlapping layers in which the very same shape with the very same fill occurs more than once, with moved /
    stretched copies of it in other colours in between - as a shaded stack draws it (A, B, A) - at the top level or inside an
    opacity group (optionally nested). After reuse the repeated layers are *equal* objects, so anything that finds a layer's
    position by equality rather than identity confuses them."""
    from ..gen_svg import placement, transform_cmds, unit_shape, view_box
    from ..geom import translate, amul

    cfg = draw(font_config(formats, transforms=False, max_upem=4096))
    if tolerances is not None:
        cfg["reuse_tolerance"] = draw(st.sampled_from(tolerances))
    vb = draw(view_box())
    unit = draw(unit_shape(("polygon", "cubic", "quad", "rect")))
    _, m = draw(placement(vb, draw(st.sampled_from(["translate", "nuscale", "rotate"]))))
    step = 0.03 * min(vb[2], vb[3])
    colours = ["#%06x" % c for c in draw(st.lists(st.integers(0, 0xFFFFFF), min_size=2, max_size=3, unique=True))]
    n = draw(st.integers(3, 6))
    # which layers are exact repeats of layer 0 (same place, same fill); the others are shifted copies in another colour
    pattern = draw(st.sampled_from(["aba", "abab", "abba", "aab", "random"]))
    if pattern == "random":
        kinds = [draw(st.sampled_from("ab")) for _ in range(n)]
        kinds[0] = "a"
    else:
        kinds = list((pattern * 3)[:max(n, len(pattern))])
    nodes = []
    for i, k in enumerate(kinds):
        if k == "a":
            nodes.append({"t": "p", "d": [list(c) for c in transform_cmds(unit, m)], "fill": {"k": "solid", "c": colours[0]}, "op": 1.0, "tag": "lib0:identity"})
        else:
            dx, dy = draw(st.integers(1, 4)) * step, draw(st.integers(-3, 3)) * step
            nodes.append({"t": "p", "d": transform_cmds(unit, amul(translate(dx, dy), m)), "fill": {"k": "solid", "c": colours[1 + (i % (len(colours) - 1))]}, "op": 1.0,
                          "tag": "lib0:translate"})
    wrap = draw(st.sampled_from(["none", "group", "group", "nested"]))
    if wrap != "none":
        grp = {"t": "g", "op": round(draw(st.floats(0.2, 0.9)), 3), "kids": nodes}
        if wrap == "nested" and len(nodes) >= 3:
            grp["kids"] = [{"t": "g", "op": round(draw(st.floats(0.2, 0.9)), 3), "kids": nodes[:-1]}, nodes[-1]]
        nodes = [grp]
    sources = [{"model": {"vb": vb, "nodes": nodes}, "cps": [0xE000]}]
    if draw(st.booleans()):
        # a second glyph registers the shape first, so that every layer of the stack is a reuse
        first = {"t": "p", "d": transform_cmds(unit, amul(translate(-2 * step, step), m)), "fill": {"k": "solid", "c": colours[-1]}, "op": 1.0, "tag": "lib0:translate"}
        sources = [{"model": {"vb": vb, "nodes": [first]}, "cps": [0xE000]}, dict(sources[0], cps=[0xE001])]
    return {"cfg": cfg, "sources": sources}


@st.composite
def inplace_reuse_case(draw, formats, tier, tolerances=None):
    """Two kinds of shared shape in one glyph group. S is drawn in its own glyph and repeated there 1-3 times, the repeats all
    wearing one paint attribute the original lacks (the original black and opaque, the repeats one colour - or all at one
    opacity): its first instance stays in place and is drawn in its own right. T occurs in two glyphs, so it is moved to a
    shared definition. Anything that tidies attributes between a reference and its target has to tell the two apart."""
    from ..gen_svg import placement, transform_cmds, unit_shape, view_box
    from ..geom import amul, translate

    cfg = draw(font_config(formats, transforms=False, max_upem=4096))
    if tolerances is not None:
        cfg["reuse_tolerance"] = draw(st.sampled_from(tolerances))
    vb = draw(view_box())
    step = 0.06 * min(vb[2], vb[3])
    s_unit = draw(unit_shape(("polygon", "cubic", "quad")))
    t_unit = draw(unit_shape(("rect", "polygon")))
    _, ms = draw(placement(vb, "translate"))
    _, mt = draw(placement(vb, "nuscale"))
    attr = draw(st.sampled_from(["fill", "fill", "opacity", "both"]))
    col = "#%06x" % draw(st.integers(1, 0xFFFFFF))
    op = draw(st.sampled_from([0.5, 0.3, 0.75]))
    s_nodes = [{"t": "p", "d": transform_cmds(s_unit, ms), "fill": {"k": "solid", "c": "#000000" if attr != "opacity" else col}, "op": 1.0, "tag": "lib0:identity"}]
    for i in range(draw(st.integers(1, 3))):
        s_nodes.append({"t": "p", "d": transform_cmds(s_unit, amul(translate((i + 1) * step, draw(st.integers(-2, 2)) * step), ms)),
                        "fill": {"k": "solid", "c": col}, "op": 1.0 if attr == "fill" else op, "tag": "lib0:translate"})
    t_a = {"t": "p", "d": transform_cmds(t_unit, mt), "fill": {"k": "solid", "c": "#%06x" % draw(st.integers(1, 0xFFFFFF))}, "op": 1.0, "tag": "lib1:identity"}
    t_b = {"t": "p", "d": transform_cmds(t_unit, amul(translate(-step, step), mt)), "fill": {"k": "solid", "c": "#%06x" % draw(st.integers(1, 0xFFFFFF))},
           "op": draw(st.sampled_from([1.0, 1.0, 0.6])), "tag": "lib1:translate"}
    g0 = s_nodes + [t_a] if draw(st.sampled_from([True, True, False])) else [t_a] + s_nodes
    sources = [{"model": {"vb": vb, "nodes": g0}, "cps": [0xE000]}, {"model": {"vb": vb, "nodes": [t_b]}, "cps": [0xE001]}]
    if draw(st.booleans()):
        sources.reverse()
        sources[0]["cps"], sources[1]["cps"] = [0xE000], [0xE001]
    return {"cfg": cfg, "sources": sources}


def enumerate_cases(tier):
    yield from css_name_rows(["glyf_colr_1"])
    yield from origin_rows(["glyf_colr_1", "cff_colr_1"])


def cases(tier):
    return st.one_of(vector_case(FORMATS, tier), vector_case(FORMATS, tier), vector_case(FORMATS, tier), vector_case(FORMATS, tier), grid_case(FORMATS, tier), prefix_pair_case(FORMATS, tier),
                     far_reuse_case(FORMATS, tier), far_reuse_case(FORMATS, tier), paint_variants_case(FORMATS, tier), overlay_case(FORMATS, tier), sandwich_case(FORMATS, tier))


def shrink(case):
    srcs = case["sources"]
    for i in range(len(srcs)):
        if len(srcs) > 1:
            yield dict(case, sources=srcs[:i] + srcs[i + 1 :])
    for i, s in enumerate(srcs):
        for m in shrink_model(s["model"]):
            yield dict(case, sources=srcs[:i] + [dict(s, model=m)] + srcs[i + 1 :])
    cfg = case["cfg"]
    if list(cfg["transform"]) != [1, 0, 0, 1, 0, 0]:
        yield dict(case, cfg=dict(cfg, transform=[1, 0, 0, 1, 0, 0]))
    if cfg["reuse_tolerance"] != -1:
        yield dict(case, cfg=dict(cfg, reuse_tolerance=-1))


def sample_repr(case):
    from ..vecoracle import source_text

    return {"cfg": case["cfg"], "sources": [{"cps": s["cps"], "svg": source_text(s)[:600]} for s in case["sources"][:2]], "n_sources": len(case["sources"])}


# gradient circles are first mapped by the *largest* scale of an anisotropic transform (then squeezed back by a wrapping
# PaintTransform), so intermediate values can exceed the final geometry several times; only geometry well below
# int16 / 8 counts as comfortably in range
SAFE_COORD = 4000.0
DOMAIN_COORD = 16000.0


def judge_rejection(v, r, refs, cfg):
    """The build raised. Accept as 'does not fit the format' only if the reference itself is near the field limits."""
    e = r.error
    name = type(e).__name__
    biggest = max([rf.max_coord() for rf in refs] + [float(rf.advance) for rf in refs] + [0.0])
    t = list(cfg.get("transform") or [1, 0, 0, 1, 0, 0])
    if isinstance(e, ValueError) and "Expected uniform scale and/or translate" in str(e) and (abs(abs(t[0]) - abs(t[3])) > 1e-12 or t[1] or t[2]) and cfg["color_format"].startswith("picosvg"):
        # OT-SVG output explicitly refuses radial gradients under a non-similarity user transform
        v.rejected = "ValueError(radial gradient under non-uniform user transform, OT-SVG)"
        return
    if biggest > SAFE_COORD or cfg["upem"] > 16384:
        v.rejected = "%s(out-of-range geometry)" % name
        return
    v.fail("spurious-rejection", name + ":" + str(e)[:60].split("\n")[0], {"error": repr(e)[:500], "max_ref_coord": biggest})


def judge(case):
    v = Verdict()
    cfg = case["cfg"]
    case_classes(case, v)
    srcs = to_build_sources(case)
    refs = [Ref(s["svg"], cfg) for s in srcs]
    if max([rf.max_coord() for rf in refs] + [0.0]) > DOMAIN_COORD:
        # outside what OpenType outlines can express at all (glyf stores int16 *deltas*: an extent > 32767 cannot be encoded)
        v.discard = "reference geometry beyond %d font units" % DOMAIN_COORD
        return v
    r = build.build_font(cfg, srcs)
    if r.error is not None:
        judge_rejection(v, r, refs, cfg)
        return v
    font = r.font
    if "COLR" not in font or font["COLR"].version != 1:
        if all(not rf.tree for rf in refs):
            v.discard = "nothing painted"
            return v
        v.fail("no-colr-v1", "table", {"tables": sorted(font.keys())})
        return v
    rd = ColrReader(font)
    cff = cfg["color_format"].startswith("cff")
    trees = []
    for i, (s, rf) in enumerate(zip(srcs, refs)):
        gname, why = reach(font, s["cps"])
        if gname is None:
            v.fail("unreachable", why, {"source": i, "cps": s["cps"]})
            continue
        adv = font["hmtx"][gname][0]
        if not advance_ok(cfg, rf.vb, adv):
            v.fail("advance", "advance-rule", {"source": i, "got": adv, "vb": rf.vb, "cfg": cfg})
        try:
            impl = rd.tree(gname)
        except (BadCOLR, UnsupportedPaint) as e:
            v.fail("bad-colr", getattr(e, "kind", "unsupported"), {"source": i, "msg": str(e)})
            continue
        trees.append(impl)
        bud = Budget("colr", cfg["upem"], cfg["reuse_tolerance"], rf.scale * rf.user_norm, cff=cff)
        res, margin = compare_trees(impl, rf.tree, bud, relax_to="colr")
        v.margin = max(v.margin, margin if not res else 0.0)
        for kind, path, detail in res[:3]:
            v.fail(kind, kind, {"source": i, "path": path, "detail": detail})
        # clip box must not cut the reference picture (full treatment: C05)
        box = rd.clipbox(gname)
        if rf.tree and box is None:
            v.fail("clipbox-missing", "painted glyph without ClipBox", {"source": i})
        if box is not None and not res:
            for lf in leaves(impl):
                eps = 0.71 * max(1.0, lf.norm) * (1 + 0.001 * cfg["upem"]) + 1.0
                if lf.bounds and (lf.bounds[0] < box[0] - eps or lf.bounds[1] < box[1] - eps or lf.bounds[2] > box[2] + eps or lf.bounds[3] > box[3] + eps):
                    v.fail("clipbox-cuts", "compiled outline outside ClipBox", {"source": i, "box": box, "leaf": lf.bounds})
                    break
    rs = reuse_stats(trees)
    if rs["shared"]:
        v.cls("reuse-fired")
    if rs["transformed"]:
        v.cls("reuse-transformed")
    v.nontrivial = is_nontrivial_vector(case) or rs["shared"] > 0
    return v
