"""C12 – maximum_color adds colour tables without altering the font."""
import io
import os

from fontTools.pens.recordingPen import DecomposingRecordingPen
from hypothesis import strategies as st

from .. import build, structure
from ..cli import Workspace, fonts_in, tail
from ..display import Budget, Grad, Group, Solid, leaves, map_tree
from ..layoutsem import diff_sem, layout_sem
from ..ref_colr import BadCOLR, ColrReader, UnsupportedPaint
from ..ref_svg import BadSVG, SVGDoc, UnsupportedSVG
from ..shaper import shape
from ..vecoracle import Y_FLIP, compare_trees, svg_doc_for_gid, to_build_sources
from ..verdict import Verdict
from . import c01, c13, c14

ID = "C12"
LEVEL = "exploration"
RULE = (
    "Input fonts are (a) nanoemoji's own output (glyf_colr_0, glyf_colr_1, picosvg, untouchedsvg; cff_colr_1 as a separately counted class) for "
    "source sets of the C01 generator with codepoint sequences, and (b) third-party-style COLRv0/v1 fonts from the C13 paint-graph generator, "
    "with or without a space glyph, with kerning / mark / ligature lookups compiled by feaLib, 1-3 CPAL palettes, post format 2 or 3; x flags "
    "{--bitmaps, --colr_version 0|1, --keep_glyph_names}. The real maximum_color CLI runs in a scratch workspace. Oracle (input vs output, glyphs "
    "identified by the text that reaches them): exit 0; same cmap domain; for every codepoint / sequence the advance, the outline of non-colour "
    "glyphs and the original colour table's display tree are unchanged; layout semantics (name-keyed normal form) unchanged when names are kept, "
    "ligature shaping unchanged otherwise; the complementary vector table exists and for every colour glyph its tree equals the original table's "
    "tree (COLRv0 target: only for solid, group-free glyphs; otherwise outline matching); with --bitmaps one CBDT bitmap per colour glyph with "
    "C14's ppem/placement formulas; post format per --keep_glyph_names; every font in the build directory passes C07's structural predicates. "
    "Non-trivial: >= 2 colour glyphs and (a ligature, layout tables, >= 2 palettes, or no space glyph)."
)
ASSUMPTIONS = ["both colour tables of the output are read by our own interpreters", "glyph identity across input/output is by the text that reaches the glyph"]
BUDGET = {"quick": 32, "thorough": 400}
TIMEOUT = {"quick": 1800, "thorough": 10000}


def setup_worker():
    build.init()


@st.composite
def case_st(draw, tier):
    kind = draw(st.sampled_from(["nano", "nano", "third"]))
    flags = {"bitmaps": draw(st.sampled_from([False, True])), "colr_version": draw(st.sampled_from([1, 1, 0])), "keep_glyph_names": draw(st.booleans())}
    if kind == "nano":
        fmt = draw(st.sampled_from(["glyf_colr_1", "glyf_colr_1", "glyf_colr_0", "picosvg", "picosvg", "picosvg", "untouchedsvg", "cff_colr_1"]))
        # OT-SVG inputs: glyphs that share shapes end up in one multi-glyph document, which maximum_color has to take apart again
        sharing = fmt == "picosvg"
        vc = draw(c01.vector_case([fmt], "quick", max_sources=4, transforms=False, p_grad=0.35, lib_always=sharing, lib_prob=0.8 if sharing else 0.6, min_sources=2 if sharing else 1))
        if len(vc["sources"]) >= 3 and draw(st.sampled_from([False, False, True])):
            # a glyph that paints nothing between glyphs that do: colour glyph ids with a hole (no bitmap, no SVG content for it)
            k = draw(st.integers(1, len(vc["sources"]) - 2))
            vc["sources"][k] = dict(vc["sources"][k], model=dict(vc["sources"][k]["model"], nodes=[]))
        vc["cfg"].update(upem=1024, ascender=950, descender=-250, width=draw(st.sampled_from([1275, 0, 1000])), reuse_tolerance=0.1, clipbox_quantization=None)
        return {"kind": "nano", "fmt": fmt, "vc": vc, "flags": flags}
    third = draw(st.one_of(c13.font_case().filter(lambda c: not c["unsupported"]), c13.shared_pool_case()))
    if draw(st.sampled_from([False, False, True])):
        third["own_outline"] = True
        solid = {"Format": 2, "PaletteIndex": 0, "Alpha": 1.0}
        third["paints"]["c0"] = [("c0", 0), ("tri", 1)] if third["version"] == 0 else {"Format": 1, "Layers": [{"Format": 10, "Glyph": "c0", "Paint": solid}, {"Format": 10, "Glyph": "tri", "Paint": dict(solid, PaletteIndex=1)}]}
    third["interleave"] = draw(st.booleans())
    return {"kind": "third", "third": third, "flags": flags, "space": draw(st.sampled_from([True, True, False])), "layout": draw(st.booleans()), "post3": draw(st.booleans()),
            "hhea_off": draw(st.sampled_from([False, False, True]))}


@st.composite
def selfonly_case(draw):
    """A hand-made style COLR font in which every colour glyph is its own (only) layer outline: no separate layer glyphs."""
    n = draw(st.integers(1, 3))
    return {"kind": "selfonly", "n": n, "version": draw(st.sampled_from([0, 1])), "space": draw(st.sampled_from([True, True, True, False])),
            "flags": {"bitmaps": False, "colr_version": 1, "keep_glyph_names": draw(st.booleans())}}


def enumerate_cases(tier):
    """C13's hand-made structure fonts as third-party input, on every run (what is drawn at random among 32 cases is as good as
    untested), with the default flags; space glyph, layout rules, post format and glyph interleaving vary over the rows."""
    # nanoemoji-built inputs with 24 colour glyphs that all share one shape: glyph ids with two digits, one id a decimal prefix of
    # others (glyph2 / glyph20..25), all in one OT-SVG document (picosvg) or sharing one outline (COLR)
    for fmt in ("picosvg", "glyf_colr_1"):
        sources = []
        for i in range(24):
            x, y = 8.0 + 3.0 * (i % 8), 10.0 + 9.0 * (i // 8)
            shared = {"t": "p", "d": [["M", x, y], ["L", x + 30.0, y], ["L", x + 30.0, y + 22.0], ["L", x + 12.0, y + 30.0], ["L", x, y + 22.0], ["Z"]],
                      "fill": {"k": "solid", "c": "#%02x%02x%02x" % (40 + 8 * i, 200 - 7 * i, (i * 37) % 256)}, "op": 1.0, "tag": "lib0:translate"}
            own = {"t": "p", "d": [["M", 60.0, 60.0 + i], ["L", 90.0 - i, 62.0], ["L", 75.0, 95.0 - i], ["Z"]], "fill": {"k": "solid", "c": "#%02x40%02x" % (250 - 9 * i, 10 * i)}, "op": 1.0, "tag": "fresh"}
            sources.append({"model": {"vb": [0.0, 0.0, 100.0, 100.0], "nodes": [shared, own] if i % 3 else [own, shared]}, "cps": [0x1F600 + i]})
        cfg = {"upem": 1024, "ascender": 950, "descender": -250, "width": 1275, "linegap": 0, "color_format": fmt, "transform": [1, 0, 0, 1, 0, 0], "reuse_tolerance": 0.1,
               "clipbox_quantization": None, "keep_glyph_names": fmt != "picosvg", "pretty_print": False}
        yield {"kind": "nano", "fmt": fmt, "vc": {"cfg": cfg, "sources": sources}, "flags": {"bitmaps": False, "colr_version": 1, "keep_glyph_names": False}}
    # CFF / CFF2 flavoured COLR inputs without any layout table (single codepoints only), in which glyphs 0 and 2 share a shape
    # and glyph 1 does not: the added SVG documents force a new glyph order onto a font whose outlines live in a charset
    for fmt in ("cff_colr_0", "cff_colr_1", "cff2_colr_0", "cff2_colr_1", "glyf_colr_0"):
        sources = []
        for i in range(4):
            own = {"t": "p", "d": [["M", 55.0 + i, 55.0], ["L", 92.0 - 3 * i, 60.0], ["L", 70.0, 94.0 - 4 * i], ["Z"]], "fill": {"k": "solid", "c": "#%02x50%02x" % (240 - 30 * i, 40 * i)}, "op": 1.0, "tag": "fresh"}
            nodes = [own]
            if i in (0, 2):
                x = 6.0 + 9.0 * i
                nodes.insert(0, {"t": "p", "d": [["M", x, 8.0], ["L", x + 32.0, 12.0], ["L", x + 26.0, 40.0], ["L", x + 4.0, 30.0], ["Z"]], "fill": {"k": "solid", "c": "#2060%02x" % (90 + 40 * i)}, "op": 1.0, "tag": "lib0:translate"})
            sources.append({"model": {"vb": [0.0, 0.0, 100.0, 100.0], "nodes": nodes}, "cps": [0x1F600 + i]})
        cfg = {"upem": 1024, "ascender": 950, "descender": -250, "width": 1275, "linegap": 0, "color_format": fmt, "transform": [1, 0, 0, 1, 0, 0], "reuse_tolerance": 0.1,
               "clipbox_quantization": None, "keep_glyph_names": True, "pretty_print": False}
        yield {"kind": "nano", "fmt": fmt, "vc": {"cfg": cfg, "sources": sources}, "flags": {"bitmaps": fmt in ("cff_colr_1", "glyf_colr_0"), "colr_version": 1, "keep_glyph_names": True}}
    rows = list(c13.fixed_rows())
    for i, third in enumerate(rows):
        third = dict(third, interleave=bool(i % 2))
        yield {"kind": "third", "third": third, "flags": {"bitmaps": False, "colr_version": 1, "keep_glyph_names": bool(i % 2)}, "space": i != 1, "layout": i != 2, "post3": i == 3, "hhea_off": i in (0, 3)}


def cases(tier):
    return st.one_of(case_st(tier), case_st(tier), case_st(tier), case_st(tier), selfonly_case())


def make_input(case):
    """-> font bytes or (None, reason)"""
    if case["kind"] == "nano":
        vc = case["vc"]
        r = build.build_font(vc["cfg"], to_build_sources(vc), reload=False)
        if r.error is not None:
            return None, "input build raises %s" % type(r.error).__name__
        return r.data, None
    if case["kind"] == "selfonly":
        from collections import OrderedDict

        from ..minifont import make_font

        glyphs = OrderedDict([(".notdef", ([[(50, 0), (50, 700), (450, 700), (450, 0)]], None))])
        cmap = {}
        if case["space"]:
            glyphs["space"] = ([], None)
            cmap[0x20] = "space"
        colr = {}
        for i in range(case["n"]):
            nm = "c%d" % i
            glyphs[nm] = ([[(100 + 20 * i, 100), (100 + 20 * i, 500 + 30 * i), (600, 500 + 30 * i), (600, 100)]], None)
            cmap[0xE000 + i] = nm
            colr[nm] = [(nm, i % 2)] if case["version"] == 0 else {"Format": 10, "Glyph": nm, "Paint": {"Format": 2, "PaletteIndex": i % 2, "Alpha": 1.0}}
        font, data = make_font(glyphs, cmap, colr=colr, colr_version=case["version"], palettes=[[(1, 0, 0, 1), (0, 0, 1, 1)]])
        return data, None
    third = dict(case["third"])
    if not case["space"]:
        third["no_space"] = True
    try:
        font, data = c13.build_case_font(third)
    except Exception as e:
        return None, "generator: %s" % type(e).__name__
    from fontTools.ttLib import TTFont

    font = TTFont(io.BytesIO(data), lazy=False)
    if case["layout"]:
        from fontTools.feaLib.builder import addOpenTypeFeaturesFromString

        names = list(third["paints"])
        fea = "feature kern { pos sq tri -40; pos tri sq 25; %s } kern;" % ("pos %s sq -10;" % names[0])
        if len(names) >= 2:
            fea += " feature liga { sub sq tri by %s; } liga;" % names[-1]
        fea += " table GDEF { GlyphClassDef [sq tri %s], , [ring], ; } GDEF;" % " ".join(names)
        fea += " markClass ring <anchor 10 20> @TOP; feature mark { pos base sq <anchor 300 500> mark @TOP; pos base %s <anchor 200 600> mark @TOP; } mark;" % names[0]
        addOpenTypeFeaturesFromString(font, fea)
    if case["post3"]:
        font["post"].formatType = 3
    if case.get("hhea_off"):
        # as in many third-party fonts: hhea and the OS/2 typo metrics disagree and USE_TYPO_METRICS is not set. Every step of
        # the tool has to take the em box from the same place (the typo metrics), or the added table is shifted
        font["hhea"].ascent += 130
        font["hhea"].descent -= 70
        font["OS/2"].fsSelection &= ~(1 << 7)
    buf = io.BytesIO()
    font.save(buf)
    return buf.getvalue(), None


def colour_tree(font, gname, table, rd=None, cache=None):
    if table == "COLR":
        return (rd or ColrReader(font)).tree(gname)
    gid = font.getGlyphID(gname)
    hit = svg_doc_for_gid(font, gid)
    if hit is None:
        return []
    d = cache.get(hit[0]) if cache is not None else None
    if d is None:
        d = SVGDoc(hit[0])
        if cache is not None:
            cache[hit[0]] = d
    return map_tree(d.glyph_tree(gid), Y_FLIP)


def outline_of(font, gs, gname):
    rp = DecomposingRecordingPen(gs)
    gs[gname].draw(rp)
    return tuple((op, tuple(args)) for op, args in rp.value)


def judge(case):
    from fontTools.ttLib import TTFont

    v = Verdict()
    flags = case["flags"]
    v.cls("input:" + (case["fmt"] if case["kind"] == "nano" else ("self-layer-colr%d" % case["version"] if case["kind"] == "selfonly" else "third-party-colr%d" % case["third"]["version"])))
    for k, x in flags.items():
        if x not in (False, 1):
            v.cls("flag:%s=%s" % (k, x))
    data, why = make_input(case)
    if data is None:
        v.discard = why
        return v
    fin = TTFont(io.BytesIO(data), lazy=False)
    in_table = "COLR" if "COLR" in fin else "SVG "
    cmap_in = fin.getBestCmap()
    texts = [[cp] for cp in sorted(cmap_in)]
    if case["kind"] == "nano":
        texts += [s["cps"] for s in case["vc"]["sources"] if len(s["cps"]) > 1]
    with Workspace("c12") as ws:
        ws.shims()
        ws.write("in/Input.ttf", data)
        args = ["maximum_color", "--build_dir", ws.path("build")]
        if flags["bitmaps"]:
            args.append("--bitmaps")
        if flags["colr_version"] == 0:
            args += ["--colr_version", "0"]
        if flags["keep_glyph_names"]:
            args.append("--keep_glyph_names")
        args.append(ws.path("in/Input.ttf"))
        rc, out = ws.run(args, ninja_j=4)
        if rc != 0:
            errs = [l for l in out.splitlines() if "Error" in l or "FAILED" in l]
            import re as _re

            specific = [l.strip() for l in out.splitlines() if _re.match(r"\s*[\w.]*(Error|Exception)\b", l) and "CalledProcessError" not in l]
            if specific:
                errs.append(specific[0])
            no_space = case["kind"] in ("third", "selfonly") and not case.get("space", True)
            key = (errs[-1][:60] if errs else "exit %d" % rc)
            if flags["bitmaps"] and "Bitmap is too big for CBDT" in out:
                v.rejected = "bitmap wider than 255 px at the default resolution (CBDT limit)"
                return v
            if flags["colr_version"] == 0 and "already maps to" in out:
                # COLRv0 keeps alpha in the palette: a palette variable used with two alphas cannot be expressed (C15)
                v.rejected = "COLRv0 palette alpha conflict"
                return v
            v.fail("maximum-color-failed", ("no-space-glyph:" if no_space else "") + key, {"out": "\n".join(errs)[-1200:], "flags": flags})
            return v
        outs = [f for f in fonts_in(ws.path("build")) if os.path.basename(f) == "Font.ttf"]
        if not outs:
            v.fail("no-output", "Font.ttf missing", {"fonts": [os.path.basename(f) for f in fonts_in(ws.path("build"))]})
            return v
        # C07 on every font of the build directory
        for f in fonts_in(ws.path("build")):
            with open(f, "rb") as fh:
                for kind, detail in structure.validate(fh.read(), check_roundtrip=os.path.basename(f) == "Font.ttf")[:2]:
                    v.fail("structure:" + kind, os.path.basename(f).split(".")[-2] if "." in os.path.basename(f) else f, {"font": os.path.basename(f), "detail": detail})
        fout = TTFont(outs[0], lazy=False)
    # ---- tables present
    other = "SVG " if in_table == "COLR" else "COLR"
    if in_table not in fout or other not in fout:
        v.fail("tables", "missing colour table", {"have": sorted(t for t in fout.keys() if t in ("COLR", "SVG ", "CBDT", "CBLC"))})
        return v
    if flags["bitmaps"] and ("CBDT" not in fout or "CBLC" not in fout):
        v.fail("tables", "--bitmaps without CBDT/CBLC", {})
    exp_post = 2 if flags["keep_glyph_names"] else 3
    if fout["post"].formatType != exp_post:
        v.fail("post-format", "post %s expected %s" % (fout["post"].formatType, exp_post), {})
    cmap_out = fout.getBestCmap()
    if set(cmap_in) != set(cmap_out):
        v.fail("cmap-domain", "codepoints differ", {"only_in": sorted(set(cmap_in) - set(cmap_out))[:5], "only_out": sorted(set(cmap_out) - set(cmap_in))[:5]})
        return v
    gs_in, gs_out = fin.getGlyphSet(), fout.getGlyphSet()
    rd_in = ColrReader(fin) if "COLR" in fin else None
    rd_out = ColrReader(fout)
    cache_in, cache_out = {}, {}
    upem = fin["head"].unitsPerEm
    ncolour = 0
    lig = False
    if other == "COLR" and fout["COLR"].version != flags["colr_version"]:
        v.fail("colr-version", "requested %d got %d" % (flags["colr_version"], fout["COLR"].version), {})
    for t in texts:
        a, b = shape(fin, t), shape(fout, t)
        if a is None or b is None or len(a) != len(b):
            v.fail("shaping-changed", "text shapes differently", {"text": t, "in": a, "out": b})
            continue
        if len(t) > 1 and len(a) == 1:
            lig = True
        for ga, gb in zip(a, b):
            if fin["hmtx"][ga][0] != fout["hmtx"][gb][0]:
                v.fail("advance-changed", "advance", {"text": t, "in": fin["hmtx"][ga][0], "out": fout["hmtx"][gb][0]})
            try:
                ta = colour_tree(fin, ga, in_table, rd_in, cache_in)
                tb = colour_tree(fout, gb, in_table, rd_out, cache_out)
                tc = colour_tree(fout, gb, other, rd_out, cache_out)
            except (BadCOLR, UnsupportedPaint, BadSVG, UnsupportedSVG) as e:
                v.fail("bad-colour-table", getattr(e, "kind", type(e).__name__), {"text": t, "msg": str(e)[:200]})
                continue
            if not ta:
                if outline_of(fin, gs_in, ga) != outline_of(fout, gs_out, gb):
                    v.fail("outline-changed", "non-colour glyph outline", {"text": t})
                continue
            # "existing outlines" includes the colour glyph's own outline (a COLRv0 base glyph's extents, a self-layer)
            if outline_of(fin, gs_in, ga) != outline_of(fout, gs_out, gb):
                v.fail("outline-changed", "colour glyph's own outline", {"text": t, "in": str(outline_of(fin, gs_in, ga))[:200], "out": str(outline_of(fout, gs_out, gb))[:200]})
            ncolour += 1
            # original table kept
            res, _ = compare_trees(tb, ta, Budget("exact", upem, extra_tau=0.01))
            for kind, path, detail in res[:1]:
                v.fail("original-table-changed", kind, {"text": t, "path": path, "detail": detail})
            # complementary table paints the same picture
            ref = ta
            solid_flat = all(isinstance(lf.paint, Solid) for lf in leaves(ref)) and not any(isinstance(n, Group) for n in ref)
            if other == "COLR":
                if flags["colr_version"] == 0 and not solid_flat:
                    # v0 cannot express gradients / groups: outlines only (C03's any-source clause)
                    from .c03 import match_contours
                    from ..geom import area

                    ic = [c for lf in leaves(tc) for c in lf.contours if abs(area([c])) > 1e-6]
                    rc_ = [c for lf in leaves(ref) for c in lf.contours if abs(area([c])) > 1e-6]
                    ui, uj, _ = match_contours(ic, rc_, 3.0 + 0.002 * upem)
                    if ui or uj:
                        v.fail("complementary-table-differs", "v0-outlines", {"text": t, "extra": len(ui), "missing": len(uj)})
                    continue
                bud = Budget("colr", upem, 0.1, 1.0, extra_tau=1.0)
                if flags["colr_version"] == 0:
                    bud.alpha_override = 1.1 / 255  # COLRv0 keeps alpha in the 8-bit palette entry
                    bud.ignore_fg_alpha = True
                relax = "colr"
            else:
                bud = Budget("otsvg", upem, 0.1, 1.0, extra_tau=1.0)
                relax = "svg"
            if in_table == "SVG ":
                bud.symmetric = True
            res, margin = compare_trees(tc, ref, bud, relax_to=relax)
            v.margin = max(v.margin, margin if not res else 0.0)
            for kind, path, detail in res[:2]:
                v.fail("complementary-table-differs", kind, {"text": t, "path": path, "detail": detail, "target": other, "input": in_table})
            if flags["bitmaps"] and "CBDT" in fout:
                recs = [sd[gb] for sd in fout["CBDT"].strikeData if gb in sd]
                if len(recs) != 1:
                    v.fail("bitmap-count", "%d bitmaps for a colour glyph" % len(recs), {"text": t})
                else:
                    mt = recs[0].metrics
                    ppem = [s.bitmapSizeTable.ppemX for s, sd in zip(fout["CBLC"].strikes, fout["CBDT"].strikeData) if gb in sd][0]
                    cfg = {"upem": upem, "ascender": fout["OS/2"].sTypoAscender, "descender": fout["OS/2"].sTypoDescender, "width": 0}
                    box = (mt.BearingX, mt.BearingY - mt.height, mt.BearingX + mt.width, mt.BearingY)
                    shape_kind = "square" if abs(mt.width - mt.height) <= 1 else "fixed"
                    c14.judge_placement(v, cfg, "cbdt", mt.width, mt.height, ppem, box, mt.Advance, fout["hmtx"][gb][0], shape_kind, {"text": t})
    if flags["bitmaps"] and "CBLC" in fout:
        # a renderer takes the first strike of the size it wants: bitmaps of one size spread over several strikes are, for
        # every glyph outside the first of them, as good as missing
        # (the tool writes one strike per run of consecutive glyph ids - C14's anchored mechanism - so strikes of one size are
        # legitimate when the colour glyphs' ids have gaps; what must not happen is one run spread over several strikes)
        by_size = {}
        for s_, sd in zip(fout["CBLC"].strikes, fout["CBDT"].strikeData):
            by_size.setdefault((s_.bitmapSizeTable.ppemX, s_.bitmapSizeTable.ppemY), []).append(sorted(fout.getGlyphID(n) for n in sd))
        for size, groups in by_size.items():
            gids = sorted(g for grp in groups for g in grp)
            runs = 1 + sum(1 for a, b in zip(gids, gids[1:]) if b != a + 1) if gids else 0
            if len(groups) > runs:
                v.fail("bitmap-strikes", "a run of consecutive glyph ids spread over several strikes of one size", {"ppem": size, "strikes": groups, "runs": runs})
    if flags["keep_glyph_names"] or fin["post"].formatType == 2 and flags["keep_glyph_names"]:
        if fin["post"].formatType == 2:
            d = diff_sem(layout_sem(fin), layout_sem(fout))
            for key, a, b in d[:2]:
                v.fail("layout-changed", key, {"before": a, "after": b})
    has_layout = any(t in fin for t in ("GPOS", "GDEF")) or lig
    v.nontrivial = ncolour >= 2 and (lig or has_layout or (case["kind"] == "third" and (case["third"]["npal"] > 1 or not case["space"])) or (case["kind"] == "selfonly" and not case["space"]))
    return v


def shrink(case):
    if case["kind"] == "nano":
        for c in c01.shrink(case["vc"]):
            yield dict(case, vc=c)
    elif case["kind"] == "third":
        for c in c13.shrink(case["third"]):
            yield dict(case, third=c)
    for k, x in case["flags"].items():
        if x not in (False, 1):
            yield dict(case, flags=dict(case["flags"], **{k: (False if isinstance(x, bool) else 1)}))
