"""C07 – every emitted font is structurally valid for its consumers."""
import os

from hypothesis import strategies as st

from .. import build, structure
from ..cli import Workspace, fonts_in
from ..gen_cfg import ALL_FORMATS, COLR0, COLR1, OTSVG_PICO, OTSVG_RAW
from ..vecoracle import to_build_sources
from ..verdict import Verdict
from . import c01, c02, c04, c14

ID = "C07"
LEVEL = "exploration"
RULE = (
    "Fonts from four generators: (vector) the C01/C02 source-set generator over all eleven vector / OT-SVG formats with shared shape libraries, "
    "sequences, reuse and user transforms; (raw) the untouched-SVG generator of C02; (seq) the C04 sequence-set generator over all 13 formats; "
    "(bitmap) the C14 PNG generator for cbdt/sbix; plus (cli) real nanoemoji and maximum_color runs whose build directories are scanned for every "
    ".ttf/.otf they wrote (intermediates included). Oracle, from the raw table bytes and the fully decompiled font: loads with lazy=False; COLR v0 "
    "base records strictly increasing by gid, layer / glyph / palette references in range; COLR v1 BaseGlyphList strictly increasing, LayerList "
    "slices, PaintGlyph / ColrGlyph glyphs and palette indices in range, ClipList ranges ordered and disjoint; SVG document index sorted by start "
    "gid with disjoint ranges inside numGlyphs, ids unique per document, every href / url() resolving inside its document, no <use> under one "
    "glyph element targeting content of another, glyph ids inside the document's range; CBLC index subtables over consecutive gids with start/end "
    "= min/max and exactly one CBDT record per listed glyph; maxp/hmtx/glyf|CharStrings/cmap agreeing on the glyph set; post format 3 for "
    "TrueType unless names were requested; save -> reload -> TTX equal table by table. Non-trivial: >= 2 colour glyphs and (>= 2 SVG documents "
    "or a multi-glyph document, a ligature, or a CLI build directory)."
)
ASSUMPTIONS = ["fontTools as the decompiler of everything but the ordering facts read with struct"]
BUDGET = {"quick": 480, "thorough": 16000}
TIMEOUT = {"quick": 1500, "thorough": 7200}
VECTOR_FORMATS = ["glyf"] + COLR0 + COLR1 + OTSVG_PICO


def setup_worker():
    build.init()


@st.composite
def cli_case(draw):
    vc = draw(c01.vector_case(["glyf_colr_1", "picosvg", "glyf_colr_0"], "quick", max_sources=4, transforms=False))
    vc["cfg"].update(upem=1024, ascender=950, descender=-250, width=1275)
    return {"t": "cli", "vc": vc, "maxcolor_flags": draw(st.sampled_from([[], ["--bitmaps"], ["--colr_version", "0"], ["--keep_glyph_names"]]))}


def cases(tier):
    vec = st.one_of(c01.vector_case(VECTOR_FORMATS, tier), c01.vector_case(VECTOR_FORMATS, tier), c01.prefix_pair_case(OTSVG_PICO + COLR1, tier),
                    c01.grid_case(VECTOR_FORMATS, tier), c01.overlay_case(OTSVG_PICO + COLR1, tier), c01.paint_variants_case(OTSVG_PICO + COLR1, tier)).map(lambda c: {"t": "vector", "vc": c})
    raw = c02.raw_case(tier).map(lambda c: {"t": "raw", "rc": c})
    seq = c04.case_st(tier).map(lambda c: {"t": "seq", "sc": c})
    bmp = c14.bitmap_case().map(lambda c: {"t": "bitmap", "bc": c})
    return st.one_of(vec, vec, vec, raw, seq, seq, bmp, cli_case().filter(lambda c: True) if tier == "thorough" else seq)


REPO_TESTS = os.path.join(os.environ.get("VERIF_REPO", "/repo"), "tests")
CLI_SETS = [
    ("glyf_colr_1", ["rect.svg", "one-o-clock.svg", "two-o-clock.svg", "reused_shape_with_gradient.svg", "group_opacity.svg"], ["--bitmaps"]),
    ("picosvg", ["rect.svg", "one-o-clock.svg", "two-o-clock.svg", "transformed_gradient_reuse.svg", "linear_gradient_rect.svg"], []),
    ("glyf_colr_0", ["rect.svg", "rect2.svg", "one-o-clock.svg", "gradient_opacity.svg"], ["--colr_version", "0"]),
    ("untouchedsvg", ["rect.svg", "one-o-clock.svg", "radial_gradient_rect.svg"], ["--keep_glyph_names"]),
    # a glyph that paints nothing between two that do: the bitmap-bearing glyph ids are not one consecutive run
    ("picosvg", ["rect.svg", "<blank>", "one-o-clock.svg", "<blank>", "two-o-clock.svg"], ["--bitmaps"]),
    ("glyf_colr_1", ["one-o-clock.svg", "<blank>", "rect.svg"], ["--bitmaps", "--keep_glyph_names"]),
]
BLANK_SVG = '<svg xmlns="http://www.w3.org/2000/svg" viewBox="0 0 128 128"></svg>'


def enumerate_cases(tier):
    """Real CLI runs (nanoemoji, then maximum_color on its output) over the repository's own test artwork: every font file in
    both build directories is validated, intermediates included."""
    for fmt, files, flags in CLI_SETS:
        yield {"t": "cli_files", "fmt": fmt, "files": files, "maxcolor_flags": flags}


def _file_name(cps):
    return "emoji_u" + "_".join("%04x" % c for c in cps) + ".svg"


def judge(case):
    v = Verdict()
    t = case["t"]
    v.cls("gen:" + t)
    if t in ("cli", "cli_files"):
        with Workspace("c07") as ws:
            ws.shims()
            names = []
            if t == "cli":
                vc = case["vc"]
                fmt = vc["cfg"]["color_format"]
                for s in to_build_sources(vc):
                    fn = _file_name(s["cps"])
                    ws.write("src/" + fn, s["svg"])
                    names.append("src/" + fn)
            else:
                fmt = case["fmt"]
                for i, fn in enumerate(case["files"]):
                    if fn == "<blank>":
                        dst = "src/" + _file_name([0x1F600 + i])
                        ws.write(dst, BLANK_SVG)
                        names.append(dst)
                        continue
                    p = os.path.join(REPO_TESTS, fn)
                    if not os.path.exists(p):
                        continue
                    with open(p) as fh:
                        dst = "src/" + _file_name([0x1F600 + i] if i % 2 == 0 else [0x1F600 + i, 0x200D, 0x1F600])
                        ws.write(dst, fh.read())
                        names.append(dst)
            rc, out = ws.run(["nanoemoji", "--build_dir", "b1", "--color_format", fmt] + names, ninja_j=4)
            if rc != 0:
                v.rejected = "nanoemoji build fails"
                return v
            rc, out = ws.run(["maximum_color", "--build_dir", ws.path("b2")] + case["maxcolor_flags"] + [ws.path("b1", "Font.ttf")], ninja_j=4)
            fonts = fonts_in(ws.path("b1")) + fonts_in(ws.path("b2"))
            v.extra_evals = len(fonts)
            for f in fonts:
                with open(f, "rb") as fh:
                    data = fh.read()
                for kind, detail in structure.validate(data)[:3]:
                    v.fail(kind, os.path.basename(f).replace("Font.", ""), {"font": os.path.basename(f), "detail": detail, "maximum_color_exit": rc})
            v.nontrivial = len(fonts) >= 2
        return v
    if t == "vector":
        c = case["vc"]
        cfg, srcs = c["cfg"], to_build_sources(c)
    elif t == "raw":
        c = case["rc"]
        cfg, srcs = c["cfg"], c["sources"]
    elif t == "seq":
        c = case["sc"]
        cfg = c["cfg"]
        srcs = []
        for i, cps in enumerate(c["seqs"]):
            s, _ = c04.source_for(i, cfg, c["aspect"])
            s["cps"] = cps
            srcs.append(s)
    else:
        c = case["bc"]
        cfg = c["cfg"]
        srcs = [{"png": c14.make_png(w, h, seed), "cps": cps} for (w, h, seed), cps in zip(c["images"], c["cps"])]
    fmt = cfg["color_format"]
    v.cls("fmt:" + fmt)
    r = build.build_font(cfg, srcs, reload=False)
    if r.error is not None:
        v.rejected = "build raises " + type(r.error).__name__
        return v
    expect_post = 2 if cfg.get("keep_glyph_names") else 3
    probs = structure.validate(r.data, expect_post=expect_post)
    for kind, detail in probs[:3]:
        v.fail(kind, fmt, {"detail": detail, "cfg": cfg})
    lig = any(len(s["cps"]) > 1 for s in srcs)
    multi = False
    if fmt.startswith(("picosvg", "untouched")) and not probs:
        from fontTools.ttLib import TTFont
        import io

        f = TTFont(io.BytesIO(r.data), lazy=False)
        docs = f["SVG "].docList if "SVG " in f else []
        multi = len(docs) >= 2 or any(d[2] > d[1] for d in docs)
    v.nontrivial = len(srcs) >= 2 and (multi or lig)
    return v


def shrink(case):
    if case["t"] == "vector":
        for c in c01.shrink(case["vc"]):
            yield dict(case, vc=c)
    elif case["t"] == "raw":
        for c in c02.shrink(case["rc"]):
            yield dict(case, rc=c)
    elif case["t"] == "seq":
        for c in c04.shrink(case["sc"]):
            yield dict(case, sc=c)
