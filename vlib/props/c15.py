"""C15 – the palette honours explicit indices and resolves every colour."""
import itertools

from hypothesis import strategies as st

from .. import build
from ..display import FG, Grad, Solid, leaves
from ..gen_svg import CSS_NAMES, fnum
from ..ref_colr import ColrReader
from ..ref_svg import SVGDoc
from ..vecoracle import reach
from ..verdict import Verdict

ID = "C15"
LEVEL = "exploration"
EXHAUSTIVE = True
RULE = (
    "Core, exhaustive: every subset of size <= 6 of a 21-colour universe (3 RGBA values x palette index None/0..5), and every subset of size <= 5 of "
    "the 28-colour universe that adds half-transparent red (same RGB as red, other alpha) and contains one of the added colours, is fed to "
    "uniq_sort_cpal_colors, also as a permuted list with duplicates; the statement is evaluated as a predicate (error iff two "
    "different colours claim one index; every colour present; indexed colour at its index; unindexed colours in the lowest free "
    "slots; other slots opaque black; never empty; length = highest used slot + 1; the same result for five different input orders). Extension: Hypothesis "
    "draws sets of up to 40 colours with indices up to 300 and arbitrary RGBA, and small source sets (fills and gradient stops "
    "using indexed, unindexed, translucent and currentColor colours) built as COLRv0 and COLRv1 fonts, where CPAL/COLR are read "
    "back from the binary: one palette, v1 entries opaque with alpha on the paint, v0 alpha in the entry, currentColor -> 0xFFFF, "
    "var(--colorN,c) at entry N, every colour index resolving to the source colour. Non-trivial: a set with an indexed and an "
    "unindexed colour and a gap or a same-RGB indexed/unindexed pair, or a font with >= 2 colours incl. an indexed or translucent one."
)
ASSUMPTIONS = ["fontTools decompiles CPAL/COLR correctly", "the exhaustive universes: 21 colours, subsets of size <= 6 (82 160 sets) + 28 colours, subsets of size <= 5 with an alpha-only variant (94 542 sets)"]
BUDGET = {"quick": 1600, "thorough": 60000}
TIMEOUT = {"quick": 600, "thorough": 3600}

RGBA = [(255, 0, 0, 1.0), (0, 0, 255, 1.0), (0, 0, 0, 1.0)]
UNIVERSE = [[r, g, b, a, idx] for (r, g, b, a) in RGBA for idx in [None, 0, 1, 2, 3, 4, 5]]
BLACK = (0, 0, 0, 1.0)


def setup_worker():
    build.init()


# a fourth value that differs from the first in alpha only (COLRv0 keeps alpha in the palette entry: red and half-transparent red
# are two colours there, and anything that compares RGB alone cannot order or tell them apart)
EXTRA = [[255, 0, 0, 0.5, idx] for idx in [None, 0, 1, 2, 3, 4, 5]]


def enumerate_cases(tier):
    n = len(UNIVERSE)
    for k in range(0, 7):
        for sub in itertools.combinations(range(n), k):
            yield {"t": "set", "colors": [UNIVERSE[i] for i in sub], "perm": "rev-dup"}
    both = UNIVERSE + EXTRA
    for k in range(1, 6):
        for sub in itertools.combinations(range(len(both)), k):
            if sub[-1] >= n:  # at least one of the alpha-only variants
                yield {"t": "set", "colors": [both[i] for i in sub], "perm": "rev-dup"}
    # alpha bytes that are not multiples of 0.01, written as #RRGGBBAA at opacity 1: COLRv0 keeps them in the palette entry
    for fl in ("glyf", "cff"):
        yield {"t": "font", "version": 0, "flavour": fl, "conflict": None, "exact_alpha": True,
               "glyphs": [{"colors": [["#ffff0020", 1.0], ["#00ffffc8", 1.0], ["#1020307f", 1.0]], "kind": "solid"}, {"colors": [["#a0b0c0fe", 1.0], ["#33445503", 1.0], ["#0a141e81", 1.0]], "kind": "solid"}]}
    # every CSS colour keyword once as a fill and once as a gradient stop, against PIL's table (A41)
    names = list(CSS_NAMES)
    for ver, kind in ((1, "solid"), (0, "solid"), (1, "stops")):
        for at in range(0, len(names), 30):
            chunk = names[at:at + 30]
            yield {"t": "font", "version": ver, "flavour": "glyf", "conflict": None,
                   "glyphs": [{"colors": [[nm, 1.0] for nm in chunk[g:g + 5]], "kind": kind} for g in range(0, len(chunk), 5)]}


color_st = st.tuples(
    st.integers(0, 255), st.integers(0, 255), st.integers(0, 255),
    st.sampled_from([1.0, 1.0, 0.5, 0.25, 0.0]),
    st.one_of(st.none(), st.integers(0, 12), st.integers(0, 300)),
).map(list)


@st.composite
def set_case(draw):
    base = draw(st.lists(color_st, min_size=0, max_size=40))
    # add deliberate interactions: same rgba with and without index, conflicting index
    if base and draw(st.booleans()):
        c = list(base[draw(st.integers(0, len(base) - 1))])
        mode = draw(st.sampled_from(["unindex", "reindex", "conflict", "conflict_alpha"]))
        if mode == "unindex":
            c[4] = None
        elif mode == "reindex":
            c[4] = draw(st.integers(0, 12))
        elif mode == "conflict_alpha":
            if c[4] is None:
                c[4] = draw(st.integers(0, 12))
                base.append(list(c))
            c[3] = 0.75 if c[3] != 0.75 else 0.5
        elif c[4] is not None:
            c[0] = (c[0] + 1) % 256
        base.append(c)
    perm = draw(st.permutations(list(range(len(base)))))
    dups = draw(st.lists(st.integers(0, max(0, len(base) - 1)), max_size=4)) if base else []
    return {"t": "set", "colors": base, "perm": list(perm) + dups}


def _svg_for(colors_in_glyph, kind):
    """One source using the given colour strings as fills (kind 'solid') or as stops of a gradient."""
    body, defs = "", ""
    for i, (cs, op) in enumerate(colors_in_glyph):
        x = 5 + 13 * i
        w = 8 + i
        d = "M%d,10 L%d,10 L%d,%d L%d,%d Z" % (x, x + w, x + w, 30 + 2 * i, x, 30 + 2 * i)
        opx = "" if op == 1.0 else ' opacity="%s"' % fnum(op)
        if kind == "solid" or cs == "currentColor":
            body += '<path d="%s" fill="%s"%s/>' % (d, cs, opx)
        else:
            defs += '<linearGradient id="g%d" gradientUnits="userSpaceOnUse" x1="%d" y1="10" x2="%d" y2="10"><stop offset="0" stop-color="%s"/><stop offset="1" stop-color="#102030"/></linearGradient>' % (i, x, x + w, cs)
            body += '<path d="%s" fill="url(#g%d)"%s/>' % (d, i, opx)
    return '<svg xmlns="http://www.w3.org/2000/svg" viewBox="0 0 100 100"><defs>%s</defs>%s</svg>' % (defs, body)


@st.composite
def font_case(draw):
    # per-font consistent palette variables (unless a conflict is injected)
    nvar = draw(st.integers(0, 3))
    idxs = draw(st.lists(st.integers(0, 6), min_size=nvar, max_size=nvar, unique=True))
    table = {}
    for i in idxs:
        r, g, b = draw(st.integers(0, 255)), draw(st.integers(0, 255)), draw(st.integers(0, 255))
        form = draw(st.sampled_from(["hex", "hex", "hexa"]))
        table[i] = "#%02x%02x%02x" % (r, g, b) if form == "hex" else "#%02x%02x%02x%02x" % (r, g, b, draw(st.integers(16, 240)))
    plain = st.one_of(
        st.tuples(st.integers(0, 255), st.integers(0, 255), st.integers(0, 255)).map(lambda c: "#%02x%02x%02x" % c),
        st.tuples(st.integers(0, 255), st.integers(0, 255), st.integers(0, 255), st.integers(1, 254)).map(lambda c: "#%02x%02x%02x%02x" % c),
        st.sampled_from(["red", "black", "blue", "#000", "#f00"]),
        st.sampled_from(CSS_NAMES),
    )
    n = draw(st.integers(1, 4))
    glyphs = []
    for gi in range(n):
        m = draw(st.integers(1, 5))
        cols = []
        for _ in range(m):
            k = draw(st.sampled_from(["plain", "plain", "var", "current"]))
            if k == "var" and table:
                i = draw(st.sampled_from(sorted(table)))
                cs = "var(--color%d, %s)" % (i, table[i])
            elif k == "current":
                cs = "currentColor"
            else:
                cs = draw(plain)
            cols.append([cs, draw(st.sampled_from([1.0, 1.0, 0.5, 0.3]))])
        glyphs.append({"colors": cols, "kind": draw(st.sampled_from(["solid", "solid", "stops"]))})
    conflict = None
    if table and draw(st.integers(0, 5)) == 0:
        i = draw(st.sampled_from(sorted(table)))
        conflict = "var(--color%d, #%02x%02x%02x)" % (i, draw(st.integers(0, 255)), draw(st.integers(0, 255)), draw(st.integers(0, 255)))
        if conflict.split(", ")[1][:-1].lower() != table[i][:7].lower():
            glyphs[draw(st.integers(0, n - 1))]["colors"].append([conflict, 1.0])
        else:
            conflict = None
    return {"t": "font", "version": draw(st.sampled_from([0, 1])), "glyphs": glyphs, "conflict": conflict,
            "flavour": draw(st.sampled_from(["glyf", "glyf", "cff"]))}


def cases(tier):
    return st.one_of(set_case(), set_case(), font_case())


# ------------------------------------------------------------------------------------------- oracle
def judge_set(case, v):
    from nanoemoji.colors import Color, uniq_sort_cpal_colors

    raw = [tuple(c) for c in case["colors"]]
    cols = [Color(*c) for c in raw]
    distinct = set(raw)
    byidx = {}
    conflict = False
    for c in distinct:
        if c[4] is not None:
            if c[4] in byidx and byidx[c[4]][:4] != c[:4]:
                conflict = True
            byidx.setdefault(c[4], c)
    un = {c[:4] for c in distinct if c[4] is None}
    indexed_rgba = {c[:4] for c in distinct if c[4] is not None}
    has_gap = bool(byidx) and len(un) < (max(byidx) + 1 - len(byidx))
    same_pair = bool(un & indexed_rgba)
    v.nontrivial = bool(byidx) and bool(un) and (has_gap or same_pair)
    v.cls("set:conflict" if conflict else "set:ok")
    if has_gap:
        v.cls("set:gap")
    if same_pair:
        v.cls("set:same-rgba-indexed-and-unindexed")
    if not cols:
        v.cls("set:empty")
    try:
        res = uniq_sort_cpal_colors(list(cols))
    except Exception as e:
        if conflict:
            v.rejected = "conflict:" + type(e).__name__
            return
        v.fail("unexpected-error", type(e).__name__, {"colors": raw, "error": repr(e)})
        return
    if conflict:
        v.fail("conflict-not-rejected", "two colours for one index accepted", {"colors": raw, "result": [tuple(c) for c in res]})
        return
    R = [tuple(c)[:4] for c in res]
    if not R:
        v.fail("empty-palette", "empty", {"colors": raw})
        return
    for c in distinct:
        if c[:4] not in R:
            v.fail("colour-missing", "input colour absent", {"colors": raw, "missing": c, "result": R})
            return
    for i, c in byidx.items():
        if i >= len(R) or R[i] != c[:4]:
            v.fail("index-not-honoured", "indexed colour not at its index", {"colors": raw, "index": i, "result": R})
            return
    free = [i for i in range(len(R)) if i not in byidx]
    # unindexed colours fill the lowest free slots; an unindexed colour equal to an indexed one may or may not get its own slot
    ok = False
    for uset in ({c for c in un}, {c for c in un if c not in indexed_rgba}):
        k = len(uset)
        if k > len(free):
            continue
        low = free[:k]
        if sorted(R[i] for i in low) == sorted(uset) and all(R[i] == BLACK for i in free[k:]):
            used = list(byidx) + low
            want_len = max(1, (max(used) + 1) if used else 0)
            if len(R) == want_len:
                ok = True
                break
    if not ok:
        v.fail("slot-rule", "unindexed not in lowest free slots / gap not black / wrong length", {"colors": raw, "result": R})
        return
    # order independence (duplicates, permutation)
    perm = case.get("perm")
    if perm == "rev-dup":
        alt = list(reversed(cols)) + cols[:2]
    else:
        alt = [cols[i] for i in perm if i < len(cols)]
        if {tuple(c) for c in alt} != {tuple(c) for c in cols}:
            alt = alt + cols
    alts = [alt]
    if len(cols) >= 2:
        # the set the function builds iterates in an order that depends on insertion history: try a few more histories
        alts += [cols[1:] + cols[:1], sorted(cols, key=lambda c: (c[3], c[0], c[1], c[2], -1 if c[4] is None else c[4])), sorted(cols, key=lambda c: (-c[3], c[2], c[1], c[0]))]
    for alt in alts:
        try:
            res2 = uniq_sort_cpal_colors(alt)
        except Exception as e:
            v.fail("order-dependence", "permuted input raises", {"colors": raw, "error": repr(e)})
            return
        if [tuple(c) for c in res2] != [tuple(c) for c in res]:
            v.fail("order-dependence", "result depends on input order", {"colors": raw, "a": R, "b": [tuple(c)[:4] for c in res2]})
            return


def judge_font(case, v):
    ver = case["version"]
    fmt = ("glyf" if case["flavour"] == "glyf" else "cff") + "_colr_%d" % ver
    cfg = {"upem": 1000, "ascender": 800, "descender": -200, "width": 1000, "linegap": 0, "color_format": fmt, "keep_glyph_names": True}
    srcs = [{"svg": _svg_for([tuple(c) for c in g["colors"]], g["kind"]), "cps": [0xE000 + i]} for i, g in enumerate(case["glyphs"])]
    v.cls("font:colr%d" % ver)
    # expected colours per the statement, from our own SVG reading
    want = []
    for s in srcs:
        want.append(list(leaves(SVGDoc(s["svg"]).tree())))
    colours = set()
    for lfs in want:
        for lf in lfs:
            ps = [lf.paint] if isinstance(lf.paint, Solid) else [Solid(rgb, a) for _, rgb, a in lf.paint.stops]
            for p in ps:
                colours.add((p.rgb, round(p.alpha, 6)))
    # conflicting indices must be an error
    decl = {}
    conflict = False
    for g in case["glyphs"]:
        for cs, op in g["colors"]:
            if cs.startswith("var("):
                from ..ref_svg import parse_color

                p = parse_color(cs, op if (g["kind"] == "solid") else 1.0)
                key = (p.rgb,) if ver == 1 else (p.rgb, round(p.alpha * (1.0 if g["kind"] == "solid" else op), 6))
                if p.pidx in decl and decl[p.pidx] != key:
                    conflict = True
                decl.setdefault(p.pidx, key)
    r = build.build_font(cfg, srcs, fea=None)
    any_alpha = any(a < 1 for _, a in colours)
    v.nontrivial = len(colours) >= 2 and (bool(decl) or any_alpha)
    if conflict:
        v.cls("font:index-conflict")
    if r.error is not None:
        if conflict:
            v.rejected = "conflict:" + type(r.error).__name__
            return
        v.fail("unexpected-error", "font:" + type(r.error).__name__, {"error": repr(r.error)[:400], "case": case})
        return
    if conflict:
        v.fail("conflict-not-rejected", "font built although two colours claim one palette index", {"decl": {str(k): str(x) for k, x in decl.items()}})
        return
    font = r.font
    cpal = font["CPAL"]
    if len(cpal.palettes) != 1 or len(cpal.palettes[0]) < 1:
        v.fail("cpal-shape", "not exactly one non-empty palette", {"n": len(cpal.palettes)})
        return
    pal = cpal.palettes[0]
    if ver == 1 and any(c.alpha != 255 for c in pal):
        v.fail("v1-palette-alpha", "COLRv1 palette entry not opaque", {"palette": [(c.red, c.green, c.blue, c.alpha) for c in pal]})
    rd = ColrReader(font)
    for i, (s, lfs) in enumerate(zip(srcs, want)):
        gname, why = reach(font, s["cps"])
        if gname is None:
            v.fail("unreachable", why, {"glyph": i})
            continue
        got = list(leaves(rd.tree(gname)))
        if ver == 0:
            # v0: one layer per shape, first colour of the paint
            if len(got) != len(lfs):
                v.fail("layer-count", "v0", {"glyph": i, "got": len(got), "want": len(lfs)})
                continue
        elif len(got) != len(lfs):
            v.fail("layer-count", "v1", {"glyph": i, "got": len(got), "want": len(lfs)})
            continue
        for k, (a, b) in enumerate(zip(got, lfs)):
            pairs = []
            if isinstance(b.paint, Solid):
                if not isinstance(a.paint, Solid):
                    v.fail("paint-kind", "solid expected", {"glyph": i, "layer": k})
                    continue
                pairs.append((a.paint, b.paint))
            elif ver == 1:
                if not isinstance(a.paint, Grad) or len(a.paint.stops) != len(b.paint.stops):
                    v.fail("paint-kind", "gradient expected", {"glyph": i, "layer": k})
                    continue
                src_el = None
                for (o1, rgb1, a1), (o2, rgb2, a2) in zip(a.paint.stops, b.paint.stops):
                    pairs.append((Solid(rgb1, a1), Solid(rgb2, a2)))
            else:
                continue  # v0 cannot express a gradient: only its first colour is kept (C03's business)
            for pa, pb in pairs:
                if ver == 0 and pb.rgb == FG and pa.rgb == FG:
                    continue  # COLRv0 has no alpha for the foreground colour (format limitation, C03)
                # a plain #RRGGBBAA fill at opacity 1 names its alpha byte: it has to arrive unchanged ("exact_alpha" rows);
                # elsewhere products of opacities are rounded on the way and 2.5 steps are allowed
                tol_a = 0.3 / 255 if case.get("exact_alpha") else 2.5 / 255
                if pa.rgb != pb.rgb or abs(pa.alpha - pb.alpha) > tol_a:
                    v.fail("colour-resolves-wrong", "COLR colour != source colour", {"glyph": i, "layer": k, "got": repr(pa), "want": repr(pb), "src": s["svg"][:300]})
    # raw facts: currentColor -> 0xFFFF; var(--colorN) -> entry N
    for i, g in enumerate(case["glyphs"]):
        gname, _ = reach(font, [0xE000 + i])
        if gname is None:
            continue
        got = list(leaves(rd.tree(gname)))
        for k, (cs, op) in enumerate(g["colors"]):
            if k >= len(got):
                break
            p = got[k].paint
            first = p if isinstance(p, Solid) else None
            if first is None and isinstance(p, Grad):
                first = None
            if cs == "currentColor":
                if not (isinstance(p, Solid) and p.rgb == FG and p.pidx == 0xFFFF):
                    v.fail("currentcolor-index", "currentColor not mapped to 0xFFFF", {"glyph": i, "layer": k, "got": repr(p)})
            elif cs.startswith("var(") and isinstance(p, Solid):
                n = int(cs[len("var(--color"):].split(",")[0])
                if p.pidx != n:
                    v.fail("var-index", "palette variable not at its index", {"glyph": i, "layer": k, "want": n, "got": p.pidx})
    # every non-foreground colour used is in the palette
    palset = {((float(c.red), float(c.green), float(c.blue)), round(c.alpha / 255.0, 6)) for c in pal}
    for rgb, a in colours:
        if rgb == FG:
            continue
        if ver == 1:
            if not any(p[0] == rgb for p in palset):
                v.fail("colour-missing", "font:v1 colour absent from CPAL", {"rgb": rgb})
        else:
            if not any(p[0] == rgb and abs(p[1] - a) <= 2.5 / 255 for p in palset):
                v.fail("colour-missing", "font:v0 colour+alpha absent from CPAL", {"rgb": rgb, "alpha": a, "palette": sorted(palset)})


def judge(case):
    v = Verdict()
    if case["t"] == "set":
        judge_set(case, v)
    else:
        judge_font(case, v)
    return v


def shrink(case):
    if case["t"] == "set":
        cols = case["colors"]
        for i in range(len(cols)):
            yield dict(case, colors=cols[:i] + cols[i + 1 :], perm="rev-dup")
    else:
        gl = case["glyphs"]
        for i in range(len(gl)):
            if len(gl) > 1:
                yield dict(case, glyphs=gl[:i] + gl[i + 1 :])
        for i, g in enumerate(gl):
            for k in range(len(g["colors"])):
                if len(g["colors"]) > 1:
                    yield dict(case, glyphs=gl[:i] + [dict(g, colors=g["colors"][:k] + g["colors"][k + 1 :])] + gl[i + 1 :])
