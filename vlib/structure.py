"""Structural validity predicates for emitted fonts (C07). Ordering facts that fontTools would silently repair on decompile
are read from the raw table bytes with struct; everything else from the fully decompiled font."""
import io
import re
import struct
import zlib

from fontTools.ttLib import TTFont
from lxml import etree

XLINK = "{http://www.w3.org/1999/xlink}href"


def _ttx_tables(font):
    out = {}
    for tag in sorted(font.keys()):
        if tag == "GlyphOrder":
            continue
        buf = io.StringIO()
        font.saveXML(buf, tables=[tag])
        text = buf.getvalue()
        if tag == "head":
            text = re.sub(r'<(checkSumAdjustment|modified) value="[^"]*"/>', "", text)
        text = re.sub(r'ttLibVersion="[^"]*"', "", text)
        out[tag] = text
    return out


def validate(data, expect_post=None, check_roundtrip=True):
    """-> list of (kind, detail). data: font bytes."""
    problems = []
    try:
        font = TTFont(io.BytesIO(data), lazy=False)
        for tag in font.keys():
            t = font[tag]
            if hasattr(t, "ensureDecompiled"):
                t.ensureDecompiled()
    except Exception as e:
        return [("does-not-load", "%s: %s" % (type(e).__name__, str(e)[:200]))]
    order = font.getGlyphOrder()
    n = len(order)
    reader = font.reader if hasattr(font, "reader") else None

    def raw(tag):
        return TTFont(io.BytesIO(data), lazy=True).reader[tag]

    # ---- glyph set agreement
    if font["maxp"].numGlyphs != n:
        problems.append(("maxp", "numGlyphs %d != glyph order %d" % (font["maxp"].numGlyphs, n)))
    if len(font["hmtx"].metrics) != n:
        problems.append(("hmtx", "%d metrics for %d glyphs" % (len(font["hmtx"].metrics), n)))
    if "glyf" in font and len(font["glyf"].glyphs) != n:
        problems.append(("glyf", "%d glyphs for %d names" % (len(font["glyf"].glyphs), n)))
    for tag in ("CFF ", "CFF2"):
        if tag in font:
            cs = font[tag].cff.topDictIndex[0].CharStrings
            if len(cs) != n:
                problems.append((tag.strip(), "%d charstrings for %d names" % (len(cs), n)))
    for t in font["cmap"].tables:
        for cp, g in t.cmap.items():
            if g not in font.getReverseGlyphMap():
                problems.append(("cmap", "U+%04X maps to unknown glyph %s" % (cp, g)))
                break
    if len(set(order)) != n:
        problems.append(("glyph-order", "duplicate glyph names"))
    if expect_post is not None and "glyf" in font and font["post"].formatType != expect_post:
        problems.append(("post-format", "post format %s, expected %s" % (font["post"].formatType, expect_post)))
    # ---- COLR
    if "COLR" in font:
        d = raw("COLR")
        version, nbase, base_off, layer_off, nlayer = struct.unpack_from(">HHIIH", d, 0)
        npal = len(font["CPAL"].palettes[0]) if "CPAL" in font and font["CPAL"].palettes else 0
        if "CPAL" not in font:
            problems.append(("colr-without-cpal", ""))
        prev = -1
        for i in range(nbase):
            gid, first, num = struct.unpack_from(">HHH", d, base_off + 6 * i)
            if gid <= prev:
                problems.append(("colr-v0-base-order", "record %d gid %d after %d" % (i, gid, prev)))
            prev = gid
            if gid >= n or first + num > nlayer:
                problems.append(("colr-v0-range", "base gid %d layers %d+%d of %d" % (gid, first, num, nlayer)))
        for i in range(nlayer):
            gid, pidx = struct.unpack_from(">HH", d, layer_off + 4 * i)
            if gid >= n or (pidx != 0xFFFF and pidx >= npal):
                problems.append(("colr-v0-layer-range", "layer %d gid %d palette %d" % (i, gid, pidx)))
        if version >= 1:
            bgl_off, ll_off, clip_off = struct.unpack_from(">III", d, 14)
            if bgl_off:
                (cnt,) = struct.unpack_from(">I", d, bgl_off)
                prev = -1
                for i in range(cnt):
                    gid, off = struct.unpack_from(">HI", d, bgl_off + 4 + 6 * i)
                    if gid <= prev:
                        problems.append(("colr-v1-base-order", "record %d gid %d after %d" % (i, gid, prev)))
                    prev = gid
                    if gid >= n:
                        problems.append(("colr-v1-range", "base gid %d" % gid))
            if clip_off:
                fmt, cnt = struct.unpack_from(">BI", d, clip_off)
                prev_end = -1
                for i in range(cnt):
                    s, e = struct.unpack_from(">HH", d, clip_off + 5 + 7 * i)
                    if s > e or s <= prev_end:
                        problems.append(("colr-v1-clip-order", "clip %d range %d-%d after %d" % (i, s, e, prev_end)))
                    prev_end = e
                    if e >= n:
                        problems.append(("colr-v1-clip-range", "clip end %d" % e))
            t = font["COLR"].table
            nl = len(t.LayerList.Paint) if t.LayerList is not None else 0

            def walk(p, depth=0):
                if depth > 64:
                    problems.append(("colr-v1-depth", ""))
                    return
                f = p.Format
                if f == 1 and p.FirstLayerIndex + p.NumLayers > nl:
                    problems.append(("colr-v1-layer-range", "%d+%d of %d" % (p.FirstLayerIndex, p.NumLayers, nl)))
                if f in (10, 11) and p.Glyph not in font.getReverseGlyphMap():
                    problems.append(("colr-v1-glyph-range", str(p.Glyph)))
                if f in (2, 3) and p.PaletteIndex != 0xFFFF and p.PaletteIndex >= npal:
                    problems.append(("colr-v1-palette-range", str(p.PaletteIndex)))
                cl = getattr(p, "ColorLine", None)
                if cl is not None:
                    for s in cl.ColorStop:
                        if s.PaletteIndex != 0xFFFF and s.PaletteIndex >= npal:
                            problems.append(("colr-v1-palette-range", str(s.PaletteIndex)))
                for k in ("Paint", "SourcePaint", "BackdropPaint"):
                    c = getattr(p, k, None)
                    if c is not None:
                        walk(c, depth + 1)

            if t.BaseGlyphList is not None:
                for r in t.BaseGlyphList.BaseGlyphPaintRecord:
                    walk(r.Paint)
            for p in (t.LayerList.Paint if t.LayerList is not None else []):
                walk(p)
    # ---- SVG
    if "SVG " in font:
        d = raw("SVG ")
        _, list_off = struct.unpack_from(">HI", d, 0)
        (cnt,) = struct.unpack_from(">H", d, list_off)
        prev_end = -1
        for i in range(cnt):
            s, e, off, ln = struct.unpack_from(">HHII", d, list_off + 2 + 12 * i)
            if s > e or s <= prev_end:
                problems.append(("svg-doc-order", "document %d range %d-%d after %d" % (i, s, e, prev_end)))
            prev_end = max(prev_end, e)
            if e >= n:
                problems.append(("svg-doc-range", "document %d end %d >= numGlyphs %d" % (i, e, n)))
            doc = d[list_off + off : list_off + off + ln]
            if doc[:3] == b"\x1f\x8b\x08":
                import gzip

                try:
                    doc = gzip.decompress(doc)
                except Exception as ex:
                    problems.append(("svg-doc-gzip", str(ex)[:100]))
                    continue
            try:
                root = etree.fromstring(doc)
            except Exception as ex:
                problems.append(("svg-doc-xml", str(ex)[:100]))
                continue
            ids = {}
            for el in root.iter():
                if not isinstance(el.tag, str):
                    continue
                i_ = el.get("id")
                if i_ is not None:
                    if i_ in ids:
                        problems.append(("svg-duplicate-id", "document %d id %s" % (i, i_)))
                    ids[i_] = el
            for g in range(s, e + 1):
                pass
            glyph_ids = [k for k in ids if re.fullmatch(r"glyph\d+", k)]
            for k in glyph_ids:
                if not (s <= int(k[5:]) <= e):
                    problems.append(("svg-glyph-id-outside-range", "document %d (%d-%d) holds %s" % (i, s, e, k)))

            def glyph_anc(el):
                while el is not None:
                    if isinstance(el.tag, str) and re.fullmatch(r"glyph\d+", el.get("id") or ""):
                        return el
                    el = el.getparent()
                return None

            for el in root.iter():
                if not isinstance(el.tag, str):
                    continue
                refs = []
                h = el.get(XLINK) or el.get("href")
                if h:
                    refs.append(h)
                for attr in ("fill", "stroke", "clip-path", "mask", "filter"):
                    val = el.get(attr) or ""
                    m = re.match(r"url\(\s*['\"]?(#[^)'\"]+)['\"]?\s*\)", val)
                    if m:
                        refs.append(m.group(1))
                for r_ in refs:
                    if not r_.startswith("#"):
                        continue
                    tgt = ids.get(r_[1:])
                    if tgt is None:
                        problems.append(("svg-dangling-ref", "document %d: %s" % (i, r_)))
                        continue
                    if etree.QName(el).localname == "use":
                        a, b = glyph_anc(el), glyph_anc(tgt)
                        if b is not None and a is not b:
                            problems.append(("svg-cross-glyph-use", "document %d: use under %s targets content of %s" % (i, a.get("id") if a is not None else None, b.get("id"))))
    # ---- CBDT / CBLC
    if "CBLC" in font:
        cblc, cbdt = font["CBLC"], font["CBDT"]
        seen = {}
        for si, stk in enumerate(cblc.strikes):
            gids = []
            for ist in stk.indexSubTables:
                g_ = [font.getGlyphID(nm) for nm in ist.names]
                if g_ != list(range(g_[0], g_[0] + len(g_))):
                    problems.append(("cblc-run", "strike %d subtable gids %s" % (si, g_[:8])))
                gids += g_
            bst = stk.bitmapSizeTable
            if gids and (bst.startGlyphIndex != min(gids) or bst.endGlyphIndex != max(gids)):
                problems.append(("cblc-start-end", "strike %d %d-%d vs %d-%d" % (si, bst.startGlyphIndex, bst.endGlyphIndex, min(gids), max(gids))))
            names_idx = {font.getGlyphName(g) for g in gids}
            names_dat = set(cbdt.strikeData[si]) if si < len(cbdt.strikeData) else set()
            if names_idx != names_dat:
                problems.append(("cblc-cbdt-mismatch", "strike %d index %d glyphs, data %d" % (si, len(names_idx), len(names_dat))))
            for nm in names_dat:
                if nm in seen:
                    problems.append(("cbdt-duplicate", nm))
                seen[nm] = si
    if "sbix" in font:
        for ppem, stk in font["sbix"].strikes.items():
            extra = set(stk.glyphs) - set(order)
            if extra:
                problems.append(("sbix-unknown-glyph", str(sorted(extra)[:3])))
    # ---- save / reload round trip
    if check_roundtrip and not problems:
        try:
            a = _ttx_tables(font)
            buf = io.BytesIO()
            font.save(buf)
            f2 = TTFont(io.BytesIO(buf.getvalue()), lazy=False)
            b = _ttx_tables(f2)
            for tag in a:
                if a[tag] != b.get(tag):
                    problems.append(("roundtrip", "table %s changes on save+reload" % tag))
        except Exception as e:
            problems.append(("roundtrip-raised", "%s: %s" % (type(e).__name__, str(e)[:200])))
    return problems
