"""CLI harness: scratch workspaces for the real `nanoemoji` / `maximum_color` console scripts (DESIGN §3.5)."""
import glob
import hashlib
import os
import shutil
import stat
import subprocess
import tempfile

HERE = os.path.dirname(os.path.abspath(__file__))
REPO = os.environ.get("VERIF_REPO", "/repo")
VENV_BIN = "/venv/bin"


def base_env(hashseed="0", extra=None):
    env = {k: v for k, v in os.environ.items() if k not in ("PYTHONPATH", "VERIF_FAULT", "VERIF_FAULT_LOG", "VERIF_NINJA_J", "VERIF_STEP_DELAY")}
    env["PATH"] = VENV_BIN + ":" + os.environ.get("PATH", "/usr/bin:/bin")
    env["PYTHONPATH"] = os.path.join(REPO, "src")
    env["SOURCE_DATE_EPOCH"] = "1700000000"
    env["PYTHONHASHSEED"] = str(hashseed)
    env["PYTHONDONTWRITEBYTECODE"] = "1"
    env["TZ"] = "UTC"
    if extra:
        env.update(extra)
    return env


# wrapper for the ELF / console-script tools: seeded latency (C08) and faults (C09: resvg and pngquant are binaries, so the
# sitecustomize injector cannot see them)
SHIM = r"""#!/bin/bash
if [ -n "$VERIF_STEP_DELAY" ]; then h=$(echo "$VERIF_STEP_DELAY $*" | cksum | cut -d" " -f1); sleep 0.$(printf "%%02d" $((h %% 30))); fi
case "$VERIF_FAULT" in
  %(tool)s-bin:fail_before)
    echo "%(tool)s-bin fail_before fired" >> "$VERIF_FAULT_LOG"; exit 3;;
  %(tool)s-bin:truncate_fail|%(tool)s-bin:truncate_kill)
    %(bin)s/%(tool)s "$@"
    out="${@: -1}"
    prev=""
    for a in "$@"; do
      case "$prev" in -o|--output|--output_file) out="$a";; esac
      prev="$a"
    done
    if [ -f "$out" ]; then sz=$(stat -c %%s "$out"); truncate -s $((sz / 2)) "$out"; fi
    echo "%(tool)s-bin ${VERIF_FAULT#*:} fired truncated $out" >> "$VERIF_FAULT_LOG"
    if [ "${VERIF_FAULT#*:}" = truncate_kill ]; then kill -9 $$; fi
    exit 4;;
esac
exec %(bin)s/%(tool)s "$@"
"""


class Workspace:
    def __init__(self, tag="ws"):
        self.root = tempfile.mkdtemp(prefix="nanoverif-%s-" % tag)
        self.shim_dir = None

    def path(self, *parts):
        return os.path.join(self.root, *parts)

    def write(self, rel, data):
        p = self.path(rel)
        os.makedirs(os.path.dirname(p), exist_ok=True)
        mode = "wb" if isinstance(data, bytes) else "w"
        with open(p, mode) as f:
            f.write(data)
        return p

    def remove(self, rel):
        os.remove(self.path(rel))

    def shims(self, ninja_j=None, delay_seed=None):
        """Put wrappers for ninja (adds -j) and, optionally, seeded per-step latency in front of PATH."""
        d = self.path(".shims")
        os.makedirs(d, exist_ok=True)
        script = '#!/bin/bash\nexec %s/ninja ${VERIF_NINJA_J:+-j$VERIF_NINJA_J} "$@"\n' % VENV_BIN
        p = os.path.join(d, "ninja")
        with open(p, "w") as f:
            f.write(script)
        os.chmod(p, 0o755)
        for tool in ("picosvg", "resvg", "pngquant"):
            p = os.path.join(d, tool)
            with open(p, "w") as f:
                f.write(SHIM % {"tool": tool, "bin": VENV_BIN})
            os.chmod(p, 0o755)
        self.shim_dir = d
        return d

    def run(self, argv, cwd=None, env=None, hashseed="0", ninja_j=None, delay=None, fault=None, timeout=600):
        e = base_env(hashseed, env)
        if self.shim_dir:
            e["PATH"] = self.shim_dir + ":" + e["PATH"]
        if ninja_j:
            e["VERIF_NINJA_J"] = str(ninja_j)
        if delay is not None:
            e["VERIF_STEP_DELAY"] = str(delay)
        if fault:
            e["VERIF_FAULT"] = fault
            e["VERIF_FAULT_LOG"] = self.path(".fault_log")
            e["PYTHONPATH"] = os.path.join(HERE, "faults") + ":" + e["PYTHONPATH"]
        try:
            r = subprocess.run(argv, cwd=cwd or self.root, env=e, capture_output=True, timeout=timeout)
            return r.returncode, (r.stdout + r.stderr).decode("utf-8", "replace")
        except subprocess.TimeoutExpired as ex:
            return -9, "TIMEOUT " + str(ex)

    def fault_fired(self):
        p = self.path(".fault_log")
        if os.path.exists(p):
            with open(p) as f:
                lines = f.read().splitlines()
            os.remove(p)
            return lines
        return []

    def close(self):
        shutil.rmtree(self.root, ignore_errors=True)

    def __enter__(self):
        return self

    def __exit__(self, *a):
        self.close()


def sha(path):
    if not os.path.exists(path):
        return None
    with open(path, "rb") as f:
        return hashlib.sha256(f.read()).hexdigest()


def fonts_in(d):
    out = []
    for ext in ("ttf", "otf"):
        out += glob.glob(os.path.join(d, "*." + ext))
    return sorted(out)


def tail(text, n=12):
    """Last n lines, preceded by ninja's FAILED: line and the first error-looking lines (the traceback tail alone says nothing)."""
    lines = text.strip().splitlines()
    head = [l for l in lines[:-n] if l.startswith("FAILED:") or "Error" in l or "error:" in l.lower()][:4]
    return "\n".join([l[:300] for l in head] + lines[-n:])[-2200:]
