"""Name-keyed semantic normal form of a font's glyph-indexed tables (C11, C12).

sem(font) returns a dict of relations expressed with glyph *names* only, so that two fonts that mean the same thing under
different glyph orders compare equal. Unknown subtable kinds are reported as ("UNHANDLED", type) so that a generator that
reaches them is noticed instead of silently passing."""
import struct


def _val(v):
    if v is None:
        return None
    out = []
    for k in ("XPlacement", "YPlacement", "XAdvance", "YAdvance"):
        x = getattr(v, k, None)
        if x:
            out.append((k, x))
    return tuple(out) or None


def _anc(a):
    if a is None:
        return None
    return (a.XCoordinate, a.YCoordinate)


def _classes(classdef, glyphs_universe=None):
    return dict(classdef.classDefs) if classdef is not None else {}


def _class_sets(classdef, order):
    """class -> frozenset of glyph names (class 0 = everything not listed)."""
    d = _classes(classdef)
    out = {}
    for g, c in d.items():
        out.setdefault(c, set()).add(g)
    out[0] = set(order) - set(d)
    return {c: frozenset(s) for c, s in out.items()}


def _recs(rule, sub):
    recs = getattr(rule, "SubstLookupRecord" if sub else "PosLookupRecord", None) or []
    return tuple((r.SequenceIndex, r.LookupListIndex) for r in recs)


def subtable_sem(st, order):
    if hasattr(st, "ExtSubTable"):
        return ("EXT",) + (subtable_sem(st.ExtSubTable, order),)
    T = type(st).__name__
    F = getattr(st, "Format", None)
    sub = "Subst" in T
    if T == "SinglePos":
        return (T, {g: _val(st.Value if F == 1 else st.Value[i]) for i, g in enumerate(st.Coverage.glyphs)})
    if T == "PairPos" and F == 1:
        return (T, {(g, r.SecondGlyph): (_val(r.Value1), _val(r.Value2)) for g, ps in zip(st.Coverage.glyphs, st.PairSet) for r in ps.PairValueRecord})
    if T == "PairPos" and F == 2:
        c1, c2 = _classes(st.ClassDef1), _classes(st.ClassDef2)
        d = {}
        for g in st.Coverage.glyphs:
            for g2 in order:
                r = st.Class1Record[c1.get(g, 0)].Class2Record[c2.get(g2, 0)]
                vv = (_val(r.Value1), _val(r.Value2))
                if vv != (None, None):
                    d[(g, g2)] = vv
        return (T, d)
    if T == "CursivePos":
        return (T, {g: (_anc(r.EntryAnchor), _anc(r.ExitAnchor)) for g, r in zip(st.Coverage.glyphs, st.EntryExitRecord)})
    if T == "MarkBasePos":
        return (T, {g: (r.Class, _anc(r.MarkAnchor)) for g, r in zip(st.MarkCoverage.glyphs, st.MarkArray.MarkRecord)},
                {g: tuple(_anc(a) for a in r.BaseAnchor) for g, r in zip(st.BaseCoverage.glyphs, st.BaseArray.BaseRecord)})
    if T == "MarkLigPos":
        return (T, {g: (r.Class, _anc(r.MarkAnchor)) for g, r in zip(st.MarkCoverage.glyphs, st.MarkArray.MarkRecord)},
                {g: tuple(tuple(_anc(a) for a in c.LigatureAnchor) for c in la.ComponentRecord) for g, la in zip(st.LigatureCoverage.glyphs, st.LigatureArray.LigatureAttach)})
    if T == "MarkMarkPos":
        return (T, {g: (r.Class, _anc(r.MarkAnchor)) for g, r in zip(st.Mark1Coverage.glyphs, st.Mark1Array.MarkRecord)},
                {g: tuple(_anc(a) for a in r.Mark2Anchor) for g, r in zip(st.Mark2Coverage.glyphs, st.Mark2Array.Mark2Record)})
    if T in ("SingleSubst",):
        return (T, dict(st.mapping))
    if T == "MultipleSubst":
        return (T, {k: tuple(x) for k, x in st.mapping.items()})
    if T == "AlternateSubst":
        return (T, {k: tuple(x) for k, x in st.alternates.items()})
    if T == "LigatureSubst":
        return (T, {g: tuple((tuple(l.Component), l.LigGlyph) for l in ls) for g, ls in st.ligatures.items()})
    if T in ("ContextSubst", "ContextPos"):
        if F == 1:
            sets = st.SubRuleSet if sub else st.PosRuleSet
            d = {}
            for g, rs in zip(st.Coverage.glyphs, sets):
                rules = (rs.SubRule if sub else rs.PosRule) if rs is not None else []
                d[g] = tuple((tuple(r.Input), _recs(r, sub)) for r in rules)
            return (T, 1, d)
        if F == 2:
            cs = _class_sets(st.ClassDef, order)
            sets = st.SubClassSet if sub else st.PosClassSet
            d = {}
            for ci, s in enumerate(sets):
                if s is None:
                    continue
                rules = s.SubClassRule if sub else s.PosClassRule
                d[cs.get(ci, frozenset())] = tuple((tuple(cs.get(c, frozenset()) for c in r.Class), _recs(r, sub)) for r in rules)
            return (T, 2, frozenset(st.Coverage.glyphs), d)
        if F == 3:
            return (T, 3, tuple(frozenset(c.glyphs) for c in st.Coverage), _recs(st, sub))
    if T in ("ChainContextSubst", "ChainContextPos"):
        if F == 1:
            sets = st.ChainSubRuleSet if sub else st.ChainPosRuleSet
            d = {}
            for g, rs in zip(st.Coverage.glyphs, sets):
                rules = (rs.ChainSubRule if sub else rs.ChainPosRule) if rs is not None else []
                d[g] = tuple((tuple(r.Backtrack), tuple(r.Input), tuple(r.LookAhead), _recs(r, sub)) for r in rules)
            return (T, 1, d)
        if F == 2:
            b, i, l = (_class_sets(x, order) for x in (st.BacktrackClassDef, st.InputClassDef, st.LookAheadClassDef))
            sets = st.ChainSubClassSet if sub else st.ChainPosClassSet
            d = {}
            for ci, s in enumerate(sets):
                if s is None:
                    continue
                rules = s.ChainSubClassRule if sub else s.ChainPosClassRule
                d[i.get(ci, frozenset())] = tuple(
                    (tuple(b.get(c, frozenset()) for c in r.Backtrack), tuple(i.get(c, frozenset()) for c in r.Input), tuple(l.get(c, frozenset()) for c in r.LookAhead), _recs(r, sub))
                    for r in rules
                )
            return (T, 2, frozenset(st.Coverage.glyphs), d)
        if F == 3:
            return (T, 3, tuple(frozenset(c.glyphs) for c in st.BacktrackCoverage), tuple(frozenset(c.glyphs) for c in st.InputCoverage),
                    tuple(frozenset(c.glyphs) for c in st.LookAheadCoverage), _recs(st, sub))
    if T == "ReverseChainSingleSubst":
        return (T, dict(zip(st.Coverage.glyphs, st.Substitute)), tuple(frozenset(c.glyphs) for c in st.BacktrackCoverage), tuple(frozenset(c.glyphs) for c in st.LookAheadCoverage))
    return ("UNHANDLED", T, F)


def layout_sem(font):
    out = {}
    order = font.getGlyphOrder()
    for tag in ("GSUB", "GPOS"):
        if tag not in font:
            continue
        t = font[tag].table
        feats = []
        if t.FeatureList is not None:
            feats = [(fr.FeatureTag, tuple(fr.Feature.LookupListIndex)) for fr in t.FeatureList.FeatureRecord]
        out[(tag, "features")] = tuple(feats)
        if t.LookupList is not None:
            for li, lk in enumerate(t.LookupList.Lookup):
                mfs = getattr(lk, "MarkFilteringSet", None)
                out[(tag, li, "flag")] = (lk.LookupFlag, mfs)
                for si, st in enumerate(lk.SubTable):
                    out[(tag, li, si)] = subtable_sem(st, order)
    if "GDEF" in font:
        g = font["GDEF"].table
        if g.GlyphClassDef is not None:
            out[("GDEF", "classes")] = dict(g.GlyphClassDef.classDefs)
        if g.MarkAttachClassDef is not None:
            out[("GDEF", "markattach")] = dict(g.MarkAttachClassDef.classDefs)
        if g.AttachList is not None:
            out[("GDEF", "attach")] = {gn: tuple(ap.PointIndex) for gn, ap in zip(g.AttachList.Coverage.glyphs, g.AttachList.AttachPoint)}
        if g.LigCaretList is not None:
            out[("GDEF", "carets")] = {gn: tuple(getattr(c, "Coordinate", getattr(c, "CaretValuePoint", None)) for c in lg.CaretValue) for gn, lg in zip(g.LigCaretList.Coverage.glyphs, g.LigCaretList.LigGlyph)}
        mgs = getattr(g, "MarkGlyphSetsDef", None)
        if mgs is not None:
            out[("GDEF", "marksets")] = tuple(frozenset(c.glyphs) for c in mgs.Coverage)
    return out


def base_sem(font, outlines=True):
    """cmap, advances (+lsb for TrueType), outlines by name."""
    from fontTools.pens.recordingPen import RecordingPen

    out = {"cmap": dict(font.getBestCmap() or {})}
    order = font.getGlyphOrder()
    out["hmtx"] = {n: tuple(font["hmtx"][n]) for n in order}
    if outlines:
        gs = font.getGlyphSet()
        ol = {}
        for n in order:
            rp = RecordingPen()
            gs[n].draw(rp)
            ol[n] = tuple((op, tuple(args)) for op, args in rp.value)
        out["outlines"] = ol
    return out


def diff_sem(a, b, limit=4):
    keys = sorted(set(a) | set(b), key=str)
    out = []
    for k in keys:
        if a.get(k) != b.get(k):
            out.append((str(k), repr(a.get(k))[:300], repr(b.get(k))[:300]))
            if len(out) >= limit:
                break
    return out


# ---------------------------------------------------------------------------------- stored coverage order
def walk_tables(obj, seen=None):
    """Yield every otBase.BaseTable reachable from obj (own walker, independent of nanoemoji.util.bfs_base_table)."""
    from fontTools.ttLib.tables.otBase import BaseTable

    if seen is None:
        seen = set()
    if isinstance(obj, BaseTable):
        if id(obj) in seen:
            return
        seen.add(id(obj))
        obj.ensureDecompiled()
        yield obj
        for v in list(vars(obj).values()):
            yield from walk_tables(v, seen)
    elif isinstance(obj, (list, tuple)):
        for v in obj:
            yield from walk_tables(v, seen)
    elif isinstance(obj, dict):
        for v in obj.values():
            yield from walk_tables(v, seen)


def save_reload_check_coverages(font):
    """Save and reload the font; return (fontTools 'not sorted' warnings, list of unsorted stored coverages, reloaded font).

    fontTools keeps the stored order of a format-1 Coverage on decompile, so after the reload every Coverage object shows
    the order that is in the binary."""
    import io
    import logging

    from fontTools.ttLib import TTFont
    from fontTools.ttLib.tables import otTables as ot

    msgs = []

    class H(logging.Handler):
        def emit(self, rec):
            m = rec.getMessage()
            if "not sorted" in m:
                msgs.append(m)

    h = H()
    lg = logging.getLogger("fontTools")
    old = lg.level
    lg.addHandler(h)
    lg.setLevel(logging.WARNING)
    bad = []
    try:
        buf = io.BytesIO()
        font.save(buf)
        f2 = TTFont(io.BytesIO(buf.getvalue()), lazy=False)
        for tag in ("GSUB", "GPOS", "GDEF"):
            if tag not in f2:
                continue
            for t in walk_tables(f2[tag].table):
                if isinstance(t, ot.Coverage):
                    gids = [f2.getGlyphID(g) for g in t.glyphs]
                    if any(b <= a for a, b in zip(gids, gids[1:])):
                        bad.append((tag, list(t.glyphs), gids))
    finally:
        lg.removeHandler(h)
        lg.setLevel(old)
    return msgs, bad, f2
