"""Verdict object returned by every property oracle."""


class Verdict:
    __slots__ = ("failures", "nontrivial", "classes", "rejected", "discard", "margin", "extra_evals", "extra")

    def __init__(self):
        self.failures = []  # (kind, normalised key, JSON-able detail)
        self.nontrivial = False
        self.classes = []
        self.rejected = None  # code under test raised on an input it may reject: name of the class
        self.discard = None  # case outside the property's domain (counted, not judged)
        self.margin = 0.0  # largest observed error / allowed error
        self.extra_evals = 0  # further sub-evaluations performed for this case
        self.extra = {}  # numeric counters summed into evidence (keys starting max_ are maxed)

    def fail(self, kind, key, detail=None):
        self.failures.append((kind, str(key), detail))
        return self

    def cls(self, *names):
        for n in names:
            if n not in self.classes:
                self.classes.append(n)
        return self

    @property
    def ok(self):
        return not self.failures
