#!/usr/bin/env python3
"""Sensitivity experiments: apply one hand-written mutant to a scratch copy of /repo/src and run checks against it.

  scripts/mutate.py list
  scripts/mutate.py run M1 [C01 C05 …]      # default: the properties listed for the mutant
  scripts/mutate.py all [--props C01,C02]   # every mutant against its properties; prints a table

The scratch copy lives under /tmp/nanoverif-mut-<pid>/ and is removed afterwards. /repo is never touched.
"""
import os
import shutil
import subprocess
import sys
import tempfile

HERE = os.path.dirname(os.path.dirname(os.path.abspath(__file__)))
REPO = os.environ.get("VERIF_REPO_SRC", "/repo")

# name: (file, old, new, [properties expected to kill it])
MUTS = {
    "M1_no_dx_centering": ("color_glyph.py", "    dx = (width - scale * view_box.w) / 2\n", "    dx = 0\n", ["C01", "C02", "C03"]),
    "M2_bbox_order": ("color_glyph.py", "        transform = Affine2D.compose_ltr((bbox_transform, transform))", "        transform = Affine2D.compose_ltr((transform, bbox_transform))", ["C01"]),
    "M3_shape_opacity_not_in_stops": ("color_glyph.py", "    color = color._replace(alpha=color.alpha * opacity * shape_opacity)\n", "    color = color._replace(alpha=color.alpha * opacity)\n", ["C01", "C02"]),
    "M4_no_inverse_reuse_on_gradient": ("write_font.py", "                    (child_transform, reuse_result.transform.inverse())\n", "                    (child_transform, Affine2D.identity())\n", ["C01", "C06"]),
    "M5_p2_not_transformed": ("paint.py", "            p2=transform.map_point(self.p2),\n        )\n        if check_overflows:", "            p2=self.p2,\n        )\n        if check_overflows:", ["C01", "C16"]),
    "M6_c0_c1_swapped": ("color_glyph.py", '    gradient_args = {"c0": c0, "c1": c1, "r0": r0, "r1": r1}', '    gradient_args = {"c0": c1, "c1": c0, "r0": r0, "r1": r1}', ["C01"]),
    "M7_extend_dropped": ("paint.py", '        "Extend": gradient.extend.name.lower(),', '        "Extend": "pad",', ["C01"]),
    "M8_group_opacity_lost": ("color_glyph.py", "                backdrop=PaintSolid(Color(0, 0, 0, opacity)),", "                backdrop=PaintSolid(Color(0, 0, 0, 1.0)),", ["C01"]),
    "M9_layers_reversed": ("color_glyph.py", "    layers = reversed(layers[0])\n", "    layers = layers[0]\n", ["C01", "C03"]),
    "M10_user_transform_before_flip": ("color_glyph.py", "            # flip y axis and shift so things are in the right place\n            Affine2D(1, 0, 0, -1, 0, ascender),\n            user_transform,\n", "            user_transform,\n            Affine2D(1, 0, 0, -1, 0, ascender),\n", ["C01"]),
    "M11_use_y_sign": ("svg.py", '        svg_use.attrib["y"] = _ntos(ty)', '        svg_use.attrib["y"] = _ntos(-ty)', ["C02", "C06"]),
    "M13_svg_no_inverse_reuse": ("svg.py", "                            reuse_result.transform.inverse(),\n", "                            Affine2D.identity(),\n", ["C02", "C06"]),
    "M17_otsvg_vb_origin": ("color_glyph.py", "            Affine2D(1, 0, 0, 1, -view_box.x, -view_box.y),", "            Affine2D(1, 0, 0, 1, view_box.x, -view_box.y),", ["C01", "C02"]),
    "M18_v0_alpha_dropped": ("write_font.py", "            c if colr_version == 0 else c.opaque()\n", "            c.opaque()\n", ["C03", "C15"]),
    "M19_v0_inverse_transform": ("write_font.py", "            glyph_name = _create_transformed_glyph(\n                color_glyph, paint_glyph, context.transform\n            ).name", "            glyph_name = _create_transformed_glyph(\n                color_glyph, paint_glyph, context.transform.inverse()\n            ).name", ["C03"]),
    "M20_inline_shared_component": ("write_font.py", "            and glyph_uses[parent_glyph.components[0].baseGlyph] == 1\n", "            and glyph_uses[parent_glyph.components[0].baseGlyph] >= 1\n", ["C03"]),
    "M21_no_extents": ("write_font.py", "    if rectArea(bounds) == 0:\n        return\n", "    return\n", ["C03"]),
    "M22_skip_ligature_for_hashed_name": ("features.py", "        target = custom_names.get(tuple(rgi)) or glyph_name(rgi)\n", "        target = custom_names.get(tuple(rgi)) or glyph_name(rgi)\n        if len(\"_\".join(\"%x\" % c for c in rgi)) > 63:\n            continue\n", ["C04"]),
    "M23_blanks_only_when_no_single": ("write_font.py", "    need_blanks = all_codepoints - direct_mapped_codepoints\n", "    need_blanks = (all_codepoints - direct_mapped_codepoints) if not direct_mapped_codepoints else set()\n", ["C04"]),
    "M25_svg_gid_not_updated": ("svg.py", "    _ensure_groups_grouped_in_glyph_order(color_glyphs, ttfont, reuse_groups)\n", "    pass\n", ["C04", "C02", "C07"]),
    "M26_fea_reverse_length_order": ("features.py", "    for rgi in sorted(rgi_sequences):\n", "    for rgi in sorted(rgi_sequences, key=lambda r: (-len(r), r)):\n", ["C04"]),
    "M26b_F5_reverted_name_collision": ("glyph.py", "    if not name[0].isalpha() or name.startswith(\"g_\"):\n", "    if not name[0].isalpha():\n", ["C04", "C10"]),
    "M26c_F14_reverted_one_hex_digit": ("glyph.py", "    return \"%02x\" % cp\n", "    return \"%x\" % cp\n", ["C10", "C04"]),
    "M24_min_advance": ("color_glyph.py", "    return max(config.width, round(font_height * view_box.w / view_box.h))", "    return min(config.width, round(font_height * view_box.w / view_box.h)) if config.width else round(font_height * view_box.w / view_box.h)", ["C04", "C01"]),
    "M27_bounds_ignore_transform": ("write_font.py", "    if not transform.almost_equals(Affine2D.identity()):\n        pen = TransformPen(bounds_pen, transform)", "    if False:\n        pen = TransformPen(bounds_pen, transform)", ["C05"]),
    "M72_cx_uses_sy": ("paint.py", "                    cx = dx / (1 - sx)\n", "                    cx = dx / (1 - sy) if sy != 1 else dx / (1 - sx)\n", ["C16"]),
    "M73_uniform_tolerance_1e-2": ("paint.py", "            if almost_equal(sx, sy):\n                return PaintScaleUniform(paint=target, scale=sx)", "            if abs(sx - sy) < 1e-2:\n                return PaintScaleUniform(paint=target, scale=sx)", ["C16"]),
    "M74_no_int16_safe_center": ("paint.py", "                if int16_safe(cx, cy):\n", "                if True:\n", ["C16"]),
    "M75_f2dot14_upper_2.0": ("fixed.py", "MAX_F2DOT14 = MAX_INT16 / (1 << 14)", "MAX_F2DOT14 = 2.0", ["C16"]),
    "M76_no_copysign": ("paint.py", "    uniform_scale = Affine2D(s, 0, 0, copysign(s, transform.d), 0, 0)", "    uniform_scale = Affine2D(s, 0, 0, s, 0, 0)", ["C16", "C01"]),
    "M76b_translate_not_int_checked": ("paint.py", "        if int16_safe(dx, dy):\n            return PaintTranslate", "        if True:\n            return PaintTranslate", ["C16"]),
    "M28_last_rect_not_union": ("write_font.py", "                bounds = unionRect(bounds, glyph_bbox)\n", "                bounds = glyph_bbox\n", ["C05"]),
    "M29_round_not_floor_ceil": ("write_font.py", "        int(math.floor(xMin / factor) * factor),\n        int(math.floor(yMin / factor) * factor),\n        int(math.ceil(xMax / factor) * factor),\n        int(math.ceil(yMax / factor) * factor),", "        int(round(xMin / factor) * factor),\n        int(round(yMin / factor) * factor),\n        int(round(xMax / factor) * factor),\n        int(round(yMax / factor) * factor),", ["C05"]),
    "M30_quantise_unrounded": ("write_font.py", "        quantization = round(config.upem * 0.02)\n", "        quantization = config.upem * 0.02\n", ["C05"]),
    "M30b_clip_for_empty": ("write_font.py", "    if bounds is None:\n        return\n    # before quantizing", "    if bounds is None:\n        return (0, 0, 0, 0)\n    # before quantizing", ["C05"]),
    "M31_no_fixed_safe": ("glyph_reuse.py", "            if not fixed_safe(*affine):\n", "            if False:\n", ["C06", "C19"]),
    "M32_tolerance_x10": ("glyph_reuse.py", "            SVGPath(d=glyph_path), SVGPath(d=path), self._reuse_tolerance\n", "            SVGPath(d=glyph_path), SVGPath(d=path), self._reuse_tolerance * 10\n", ["C06"]),
    "M33_reuse_without_affine_check": ("glyph_reuse.py", "            if affine is None:\n                logging.warning(\"affine_between failed: %s %s \", glyph_path, path)\n                continue\n", "            if affine is None:\n                affine = Affine2D.identity()\n", ["C06", "C01"]),
    "M82_normalize_tolerance_div1000": ("glyph_reuse.py", "        self._normalize_tolerance = self._reuse_tolerance / 10\n", "        self._normalize_tolerance = self._reuse_tolerance / 1000\n", ["C19"]),
    "M83_no_reuse_when_mirrored": ("glyph_reuse.py", "            # https://github.com/googlefonts/nanoemoji/issues/313 avoid out of bounds affines\n", "            if affine.determinant() < 0:\n                continue\n", ["C19"]),
    "M84b_F15_reverted_single_donor": ("glyph_reuse.py", "        self._reusable_paths.setdefault(norm_path, []).append((glyph_name, glyph_path))\n", "        self._reusable_paths[norm_path] = [(glyph_name, glyph_path)]\n", ["C19"]),
    "M84_cache_keyed_by_raw_path": ("glyph_reuse.py", "        norm_path = normalize(SVGPath(d=path), self._normalize_tolerance).d\n\n        # Several", "        norm_path = path\n\n        # Several", ["C19"]),
    "M64_floor_ppem": ("bitmap_tables.py", "    return round(config.upem * pixels / funits)\n", "    return int(config.upem * pixels / funits)\n", ["C14"]),
    "M65_y_offset_no_half_difference": ("bitmap_tables.py", "                round(line_ascent - 0.5 * (line_height - config.bitmap_resolution)),", "                round(line_ascent),", ["C14"]),
    "M66_strike_not_split_at_gap": ("bitmap_tables.py", "            and color_glyphs[end].glyph_id == color_glyphs[end - 1].glyph_id + 1\n", "            and color_glyphs[end].glyph_id >= color_glyphs[end - 1].glyph_id + 1\n", ["C14"]),
    "M67_offsets_wrong_base": ("bitmap_tables.py", "    data_offset = CBDT_HEADER_SIZE\n\n    while color_glyphs:", "    data_offset = 0\n\n    while color_glyphs:", ["C14"]),
    "M67b_advance_uses_config_width_only": ("bitmap_tables.py", "    width_funits = max(config.width, width_funits)\n", "    width_funits = config.width or width_funits\n", ["C14"]),
    "M47_write_omits_linegap": ("config.py", "        \"linegap\": config.linegap,\n", "", ["C10", "C20"]),
    "M48_pop_flag_prefers_file": ("config.py", "    return flag_value if flag_value is not None else config_value", "    return config_value if config_value is not None else flag_value", ["C10", "C20"]),
    "M49_csv_join": ("glyphmap.py", "        f = StringIO()\n        writer = csv.writer(f, lineterminator=\"\")\n        writer.writerow(row)\n        return f.getvalue()", "        return \",\".join(str(r) for r in row)", ["C10"]),
    "M50_regex_two_or_more": ("codepoints.py", "[0-9a-fA-F]{1,}", "[0-9a-fA-F]{2,}", ["C10"]),
    "M51_no_g_prefix": ("glyph.py", "    if not name[0].isalpha() or name.startswith(\"g_\"):\n        name = \"g_\" + name\n", "    pass\n", ["C10"]),
    "M51b_F9_reverted": ("parts.py", "        if self.reuse_tolerance == -1:\n            return  # reuse is disabled, nothing can be a donor\n", "", ["C10"]),
    "M51c_parts_json_drops_none_donor": ("parts.py", "            if donor != \"\":\n", "            if donor:\n", ["C10"]),
    "M59_transform_not_reset_after_path": ("colr_to_svg.py", "    el.attrib[\"transform\"] = _svg_matrix(svg_transform)\n    # we must reset", "    el.attrib[\"transform\"] = _svg_matrix(svg_transform)\n    return transform\n    # we must reset", ["C13"]),
    "M60_skew_sign": ("paint.py", "        return Affine2D.identity().skew(\n            -radians(self.xSkewAngle), radians(self.ySkewAngle)\n        )", "        return Affine2D.identity().skew(\n            radians(self.xSkewAngle), radians(self.ySkewAngle)\n        )", ["C13"]),
    "M61_colrglyph_drops_transform": ("colr_to_svg.py", "            transform = _apply_transform(transform, font_to_vbox, el)\n", "            transform = Affine2D.identity()\n", ["C13"]),
    "M62_radial_not_decomposed": ("colr_to_svg.py", "    if paint.format == PaintRadialGradient.format:\n        coord_transform, remaining_transform = _decompose_uniform_transform(\n            coord_transform\n        )", "    if False:\n        pass", ["C13"]),
    "M63_palette_index_single_palette": ("colr_to_svg.py", "        palette_index=palette_index if len(ttfont[\"CPAL\"].palettes) > 1 else None,", "        palette_index=None,", ["C13"]),
    "M63b_v0_alpha_lost": ("colr_to_svg.py", "        paint = PaintSolid(_color(ttfont, glyph_layer.colorID))", "        paint = PaintSolid(_color(ttfont, glyph_layer.colorID).opaque())", ["C13"]),
    "M63c_group_alpha_lost": ("colr_to_svg.py", "                g.attrib[\"opacity\"] = ntos(color.alpha)\n", "                g.attrib[\"opacity\"] = ntos(1.0)\n", ["C13"]),
    "M63d_layers_reversed": ("colr_to_svg.py", "        for child_paint in layerList[\n            ot_paint.FirstLayerIndex : ot_paint.FirstLayerIndex + ot_paint.NumLayers\n        ]:", "        for child_paint in reversed(layerList[\n            ot_paint.FirstLayerIndex : ot_paint.FirstLayerIndex + ot_paint.NumLayers\n        ]):", ["C13"]),
    "M39_blank_glyphs_unsorted": ("write_font.py", "    ufo.glyphOrder = ufo.glyphOrder + sorted(glyph_names)\n", "    ufo.glyphOrder = ufo.glyphOrder + glyph_names\n", ["C08"]),
    "M40_disjoint_set_unsorted": ("svg.py", "    return initial_glyphs + reuse_groups.sorted()\n", "    return initial_glyphs + tuple(tuple(s) for s in reuse_groups.sets())\n", ["C08"]),
    "M41_palette_unsorted": ("colors.py", "    cpal_colors = deque(sorted(all_colors, key=_color_sort_key))\n", "    cpal_colors = deque(sorted(all_colors, key=lambda c: (_color_sort_key(c)[0],)))\n", ["C08", "C15"]),
    "M42_sources_unsorted": ("config.py", "        srcs = tuple(sorted(util.abspath(p) for p in srcs))\n", "        srcs = tuple(util.abspath(p) for p in srcs)\n", ["C08"]),
    "M44_glyphmap_not_implicit_dep": ("nanoemoji.py", "        \"glyphmap_file\": rel_build(_glyphmap_file(font_config, master)),\n        \"part_file\": master_part_file_dest(),\n    }", "        \"part_file\": master_part_file_dest(),\n    }", ["C09"]),
    "M45_gen_ninja_skipped_when_exists": ("nanoemoji.py", "    if gen_ninja():\n        logging.info(f\"Generating {build_file.relative_to(build_dir())}\")", "    if gen_ninja() and not build_file.exists():\n        logging.info(f\"Generating {build_file.relative_to(build_dir())}\")", ["C09"]),
    "M46_ninja_failure_ignored": ("ninja.py", "        subprocess.run(ninja_cmd, check=True)", "        subprocess.run(ninja_cmd, check=False)", ["C09", "C17"]),
    "M43_config_not_a_dependency": ("nanoemoji.py", "        implicit=list(variables.values()),\n        variables=variables,\n    )\n    nw.newline()\n\n\ndef write_variable_font_build", "        implicit=[v for k, v in variables.items() if k != \"config_file\"],\n        variables=variables,\n    )\n    nw.newline()\n\n\ndef write_variable_font_build", ["C09", "C20"]),
    "M77_F11_reverted_dup_inputs": ("write_font.py", "    if duplicate_names:\n", "    if False:\n", ["C17"]),
    "M78_bad_color_falls_back_to_black": ("colors.py", "            raise ValueError(f\"invalid or unsupported color string: {s!r}\")", "            red, green, blue = 0, 0, 0", ["C17"]),
    "M78b_unknown_spread_is_pad": ("color_glyph.py", "    if spread_method not in Extend.__members__:\n        raise ValueError(f\"Unknown spreadMethod {spread_method}\")", "    if spread_method not in Extend.__members__:\n        spread_method = \"PAD\"", ["C17"]),
    "M78c_cbdt_too_big_unchecked": ("bitmap_tables.py", "    raise_if_too_big_for_cbdt(color_glyphs)\n", "", ["C17", "C14"]),
    "M85_linegap_not_in_ufo": ("write_font.py", "    ufo.info.openTypeHheaLineGap = ufo.info.openTypeOS2TypoLineGap = config.linegap\n", "    ufo.info.openTypeHheaLineGap = ufo.info.openTypeOS2TypoLineGap = 0\n", ["C20"]),
    "M88_clipbox_quantization_flag_ignored": ("config.py", "    clipbox_quantization = _pop_flag(config, \"clipbox_quantization\")\n", "    clipbox_quantization = config.pop(\"clipbox_quantization\", None)\n", ["C20", "C10"]),
    "M88b_space_width_fixed": ("write_font.py", "    space.width = config.width\n", "    space.width = 1275\n", ["C20"]),
    "M88c_version_minor_not_padded": ("write_font.py", "    ufo.info.versionMinor = config.version_minor\n", "    ufo.info.versionMinor = config.version_minor * 10 if config.version_minor < 100 else config.version_minor\n", ["C20"]),
    "M88d_F13_reverted": ("nanoemoji.py", "        if dest in picosvg_builds:\n            continue\n        picosvg_builds.add(dest)\n", "        if svg_file in picosvg_builds:\n            continue\n        picosvg_builds.add(svg_file)\n", ["C20"]),
    "M80_axis_minimum_is_default": ("write_variable_font.py", "            minimum=min(\n                p.position\n                for m in font_config.masters\n                for p in m.position\n                if p.axisTag == a.axisTag\n            ),", "            minimum=a.default,", ["C18"]),
    "M79_master_locations_shuffled": ("write_variable_font.py", "        location = {axis_names[p.axisTag]: p.position for p in master.position}\n", "        location = {axis_names[p.axisTag]: sorted(q.position for mm in font_config.masters for q in mm.position)[list(font_config.masters).index(master)] if len(font_config.masters) > 2 else p.position for p in master.position}\n", ["C18"]),
    "M81_default_master_position_as_given": ("write_variable_font.py", "            default=a.default,\n", "            default=font_config.masters[0].position[0].position,\n", ["C18"]),
    "M54_copy_svg_without_reorder": ("glue_together.py", "    reorder_glyphs(target, new_glyph_order)\n    target[\"SVG \"] = donor[\"SVG \"]", "    target[\"SVG \"] = donor[\"SVG \"]", ["C12"]),
    "M56_mergeable_uses_hhea": ("write_config_for_mergeable.py", "    ascender = font[\"OS/2\"].sTypoAscender\n    descender = font[\"OS/2\"].sTypoDescender", "    ascender = font[\"hhea\"].ascent + 50\n    descender = font[\"hhea\"].descent", ["C12"]),
    "M57_glyphmap_off_by_one": ("write_glyphmap_for_glyph_svgs.py", "                    glyph_name=glyph_order[int(svg_file.stem)],", "                    glyph_name=glyph_order[max(1, int(svg_file.stem) - 1)] if int(svg_file.stem) %% 2 else glyph_order[int(svg_file.stem)],".replace("%%", "%"), ["C12"]),
    "M58_always_strip_names": ("maximum_color.py", "            if config.load().keep_glyph_names:\n", "            if False:\n", ["C12"]),
    "M58c_F16_reverted_charstrings_not_read": ("reorder_glyphs.py", "    for top_dict in cff_top_dicts:\n        top_dict.CharStrings\n", "    for top_dict in cff_top_dicts:\n        pass\n", ["C11", "C12"]),
    "M58d_F17_reverted_glyph_order_set_first": ("reorder_glyphs.py", "    cff_top_dicts = [\n        top_dict\n        for tag in (\"CFF \", \"CFF2\")\n        if tag in font.keys()\n        for top_dict in font[tag].cff.topDictIndex\n    ]\n    for top_dict in cff_top_dicts:\n        top_dict.CharStrings\n\n    font.setGlyphOrder(new_glyph_order)\n", "    font.setGlyphOrder(new_glyph_order)\n\n    cff_top_dicts = [\n        top_dict\n        for tag in (\"CFF \", \"CFF2\")\n        if tag in font.keys()\n        for top_dict in font[tag].cff.topDictIndex\n    ]\n    for top_dict in cff_top_dicts:\n        top_dict.CharStrings\n", ["C11", "C12"]),
    "M58b_F10_reverted_cff_charset": ("reorder_glyphs.py", "                top_dict.charset = list(new_glyph_order)\n", "                pass\n", ["C12", "C11"]),
    "M34_docs_not_regrouped": ("svg.py", "    _ensure_groups_grouped_in_glyph_order(color_glyphs, ttfont, reuse_groups)\n", "    pass\n", ["C07"]),
    "M35_gradient_cache_not_reset": ("svg.py", "        reuse_cache.gradient_ids = {}  # don't share gradients across groups\n", "", ["C07", "C02"]),
    "M38_post_left_2": ("write_font.py", "            ttfont[\"post\"].formatType = 3  # no glyph names\n", "            pass\n", ["C07", "C04"]),
    "M38b_docs_sorted_by_name": ("svg.py", "    doc_list = []\n    for group in reuse_groups:", "    doc_list = []\n    for group in sorted(reuse_groups, key=lambda g: g[0][::-1]):", ["C07", "C02"]),
    "M68_unindexed_popleft": ("colors.py", "            result[i] = cpal_colors.pop()\n", "            result[i] = cpal_colors.popleft() if cpal_colors[0].palette_index is None else cpal_colors.pop()\n", ["C15"]),
    "M69_slots_len_only": ("colors.py", "    cpal_slots = max(len(all_colors), max(indexed_colors, default=-1) + 1)", "    cpal_slots = max(len(all_colors), len(indexed_colors))", ["C15"]),
    "M70_conflict_by_rgb_only": ("colors.py", "            if color.palette_index in indexed_colors:\n", "            if color.palette_index in indexed_colors and indexed_colors[color.palette_index][:3] != color[:3]:\n", ["C15"]),
    "M71_v1_palette_keeps_alpha": ("write_font.py", "            c if colr_version == 0 else c.opaque()\n", "            c\n", ["C15", "C01"]),
}


RULE_KEYS = [("SinglePos", 1), ("SinglePos", 2), ("PairPos", 1), ("PairSet", None), ("PairPos", 2), ("CursivePos", 1), ("MarkBasePos", 1), ("MarkLigPos", 1),
             ("MarkMarkPos", 1), ("ContextPos", 1), ("ContextPos", 2), ("ContextPos", 3), ("ChainContextPos", 1), ("ChainContextPos", 2), ("ChainContextPos", 3),
             ("ContextSubst", 1), ("ContextSubst", 2), ("ContextSubst", 3), ("ChainContextSubst", 1), ("ChainContextSubst", 2), ("ChainContextSubst", 3),
             ("ReverseChainSingleSubst", 1), ("AttachList", None), ("LigCaretList", None), ("MarkGlyphSetsDef", None)]
for _t, _f in RULE_KEYS:
    MUTS["R_%s_%s" % (_t, _f)] = ("reorder_glyphs.py", "APPEND", "\n_REORDER_RULES[(ot.%s, %r)] = []\n" % (_t, _f), ["C11"])
MUTS["M52_sort_coverage_not_parallel"] = ("reorder_glyphs.py", "        parallel_list[:] = sorted_parallel_list\n", "        pass\n", ["C11"])
MUTS["M53_reorderlist_keyed_on_first"] = ("reorder_glyphs.py", "        lst.sort(key=lambda v: font.getGlyphID(getattr(v, self.key)))", "        lst.sort(key=lambda v: -font.getGlyphID(getattr(v, self.key)))", ["C11"])


def apply(name, dest):
    f, old, new, _ = MUTS[name]
    shutil.copytree(os.path.join(REPO, "src"), os.path.join(dest, "src"))
    if old == "APPEND":
        with open(os.path.join(dest, "src", "nanoemoji", f), "a") as fh:
            fh.write(new)
        return
    p = os.path.join(dest, "src", "nanoemoji", f)
    s = open(p).read()
    if s.count(old) != 1:
        raise SystemExit("mutant %s: pattern occurs %d times in %s" % (name, s.count(old), f))
    open(p, "w").write(s.replace(old, new))


def run(name, props, extra=()):
    d = tempfile.mkdtemp(prefix="nanoverif-mut-")
    results = {}
    try:
        apply(name, d)
        for p in props:
            env = dict(os.environ, VERIF_REPO=d)
            r = subprocess.run([os.path.join(HERE, "check"), p, "--no-evidence", *extra], env=env, capture_output=True, text=True, cwd=HERE)
            killed = r.returncode == 1 and "VIOLATION property=%s" % p in r.stdout
            kinds = sorted({l.split("kind=")[1].split(" ")[0] for l in r.stdout.splitlines() if l.strip().startswith("failure kind=")})
            results[p] = ("KILLED" if killed else ("HARNESS-ERROR" if r.returncode == 2 else "survived"), kinds, r.stdout[-600:] if r.returncode == 2 else "")
    finally:
        shutil.rmtree(d, ignore_errors=True)
        # replays written for mutants are not findings on the real tree
    return results


def main():
    a = sys.argv[1:]
    if not a or a[0] == "list":
        for k, v in MUTS.items():
            print(k, v[0], v[3])
        return
    if a[0] == "run":
        name = a[1]
        props = a[2:] or MUTS[name][3]
        for p, (st, kinds, tail) in run(name, props).items():
            print("%-34s %s %-10s %s %s" % (name, p, st, ",".join(kinds), tail))
        return
    if a[0] == "all":
        only = None
        start = a[a.index("--from") + 1] if "--from" in a else None
        if "--props" in a:
            only = set(a[a.index("--props") + 1].split(","))
        for name in MUTS:
            if start is not None:
                if name != start:
                    continue
                start = None
            props = [p for p in MUTS[name][3] if only is None or p in only]
            if not props:
                continue
            try:
                res = run(name, props)
            except SystemExit as e:
                print("%-34s PATTERN-ERROR %s" % (name, e), flush=True)
                continue
            for p, (st, kinds, tail) in res.items():
                print("%-34s %s %-10s %s %s" % (name, p, st, ",".join(kinds), tail), flush=True)


if __name__ == "__main__":
    main()
