#!/bin/bash
# Offline setup: make sure hypothesis is importable by /venv/bin/python (it normally already is).
HERE="$(cd "$(dirname "${BASH_SOURCE[0]}")/.." && pwd)"
cd "$HERE" || exit 1
chmod +x check scripts/*.sh 2>/dev/null
if ! PYTHONPATH="$HERE/.deps" /venv/bin/python -c "import hypothesis" 2>/dev/null; then
  /venv/bin/pip install -q --no-index --find-links /opt/veriftools/wheels --target "$HERE/.deps" hypothesis || exit 1
fi
PYTHONPATH="$HERE/.deps" /venv/bin/python -c "import hypothesis, fontTools, picosvg, nanoemoji; print('setup ok: hypothesis', hypothesis.__version__)"
