#!/bin/bash
# Runs every quick check at several seeds on the unchanged tree and prints only alarms / harness errors (flake hunting).
cd "$(dirname "$0")/.."
SEEDS="${@:-2 3 4 5 6}"
for s in $SEEDS; do
  for p in C01 C02 C03 C04 C05 C06 C07 C08 C09 C10 C11 C12 C13 C14 C15 C16 C17 C18 C19 C20; do
    out=$(VERIF_SEED=$s ./check $p --no-evidence 2>&1); rc=$?
    if [ $rc -ne 0 ]; then echo "=== seed $s $p exit $rc"; echo "$out" | grep "failure kind\|VIOLATION\|HARNESS\|INCONCLUSIVE\|Error" | cut -c1-700 | head -8; fi
  done
  echo "seed $s done"
done
