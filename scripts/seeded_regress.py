#!/usr/bin/env python3
"""Re-runs, for every stored seeded change, the checks that are recorded as reporting it (meta.json confirmed.killed_by)
against a scratch copy of /repo/src with the patch applied. Prints one line per (seed, check): KILLED / survived / HARNESS-ERROR.
Usage: scripts/seeded_regress.py [seed-dir-name ...]      (long: about two hours for all of them)"""
import json, os, re, shutil, subprocess, sys, tempfile

HERE = os.path.dirname(os.path.dirname(os.path.abspath(__file__)))
names = sys.argv[1:] or sorted(os.listdir(os.path.join(HERE, "seeded")))
bad = 0
for name in names:
    d = os.path.join(HERE, "seeded", name)
    meta = json.load(open(os.path.join(d, "meta.json")))
    kb = meta.get("confirmed", {}).get("killed_by") or [meta["property"]]
    if isinstance(kb, str):
        kb = [kb]
    checks = []
    for k in kb:
        for m in re.findall(r"\bC\d\d\b", k.split("(")[0]):
            if m not in checks:
                checks.append(m)
    tmp = tempfile.mkdtemp(prefix="nanoverif-seed-")
    try:
        shutil.copytree("/repo/src", os.path.join(tmp, "src"))
        shutil.copytree("/repo/tests", os.path.join(tmp, "tests"))
        r = subprocess.run(["patch", "-p1", "-s", "-d", tmp, "-i", os.path.join(d, "patch.diff")], capture_output=True, text=True)
        if r.returncode != 0:
            print("%-8s PATCH-DOES-NOT-APPLY %s" % (name, (r.stdout + r.stderr)[:200].replace("\n", " ")), flush=True)
            bad += 1
            continue
        got = []
        for c in checks:
            r = subprocess.run([os.path.join(HERE, "check"), c, "--no-evidence"], env=dict(os.environ, VERIF_REPO=tmp), capture_output=True, text=True, cwd=HERE)
            st = "KILLED" if (r.returncode == 1 and "VIOLATION property=%s" % c in r.stdout) else ("HARNESS-ERROR" if r.returncode == 2 else "survived")
            got.append("%s:%s" % (c, st))
        ok = any(g.endswith("KILLED") for g in got)
        if meta.get("confirmed", {}).get("unreported"):  # kept on file as a known gap (DESIGN 5.2), not counted
            print("%-8s %s %s" % (name, "known-unreported" if not ok else "now-reported", " ".join(got)), flush=True)
            continue
        if not ok:
            bad += 1
        print("%-8s %s %s" % (name, "ok  " if ok else "MISS", " ".join(got)), flush=True)
    finally:
        shutil.rmtree(tmp, ignore_errors=True)
        shutil.rmtree(os.path.join(HERE, "replays"), ignore_errors=True)
print("seeds not reported by any of their checks: %d of %d" % (bad, len(names)))
