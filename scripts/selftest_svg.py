#!/venv/bin/python
"""Oracle self-test: the reference SVG interpreter (vlib/ref_svg.py + display.composite) against resvg, an independent,
conforming renderer. N generated picosvg-normal sources are rasterised with resvg at 192 px; at pixel centres >= 2.5 px away
from every outline edge the composited colour of the display tree must agree with the pixel within a tolerance.

  PYTHONPATH=/verif /venv/bin/python scripts/selftest_svg.py [N] [seed]
Exit 0 = agreement, 1 = disagreement (printed), 2 = resvg missing."""
import os
import shutil
import subprocess
import sys
import tempfile

sys.path.insert(0, os.path.dirname(os.path.dirname(os.path.abspath(__file__))))
import hypothesis
from hypothesis import HealthCheck, Phase, given, settings
from PIL import Image

from vlib.display import Grad, composite, leaves
from vlib.gen_svg import render, source_model
from vlib.geom import dist_to_contours
from vlib.ref_svg import SVGDoc

N = int(sys.argv[1]) if len(sys.argv) > 1 else 40
SEED = int(sys.argv[2]) if len(sys.argv) > 2 else 1
RES = 192
TOL = 14.0  # per 8-bit channel: anti-aliasing is excluded by the edge distance; what remains is gradient interpolation/dither


def plain_colours(model):
    """Rewrite every colour as #rrggbb with its alpha moved to the opacity next to it (same picture, plain syntax)."""
    import copy

    from vlib.ref_svg import parse_color

    m = copy.deepcopy(model)

    def fix(nodes):
        for n in nodes:
            if n["t"] == "g":
                fix(n["kids"])
                continue
            f = n["fill"]
            if f["k"] == "solid":
                c = parse_color(f["c"].replace("currentColor", "black"))
                f["c"] = "#%02x%02x%02x" % tuple(int(v) for v in c.rgb)
                n["op"] = round(n["op"] * c.alpha, 6)
            else:
                for st_ in f["stops"]:
                    c = parse_color(st_[1])
                    st_[1] = "#%02x%02x%02x" % tuple(int(v) for v in c.rgb)
                    st_[2] = round(st_[2] * c.alpha, 6)

    fix(m["nodes"])
    return m


def main():
    resvg = shutil.which("resvg") or "/venv/bin/resvg"
    if not os.path.exists(resvg):
        print("resvg not found")
        return 2
    models = []

    @hypothesis.seed(SEED)
    @settings(max_examples=N + 1, database=None, deadline=None, phases=[Phase.generate], suppress_health_check=list(HealthCheck))
    @given(source_model({}, None, max_shapes=4, p_grad=0.6))
    def collect(m):
        models.append(m)

    collect()
    d = tempfile.mkdtemp(prefix="nanoverif-selftest-")
    bad = 0
    skipped_fr = 0
    probes = 0
    worst = 0.0
    kinds = {}
    try:
        for k, m in enumerate(models[1:]):
            m = plain_colours(m)  # resvg 0.44 knows neither 'rebeccapurple' nor all CSS Color 4 notations: keep the renderer comparison about geometry and gradients
            text = render(m)
            if ' fr="' in text:
                skipped_fr += 1  # resvg 0.44 ignores the SVG 2 focal radius (checked by hand): not comparable
                continue
            src, png = os.path.join(d, "%d.svg" % k), os.path.join(d, "%d.png" % k)
            with open(src, "w") as f:
                f.write(text)
            r = subprocess.run([resvg, "-h", str(RES), src, png], capture_output=True)
            if r.returncode != 0:
                print("resvg failed on case", k, r.stderr.decode()[:200])
                bad += 1
                continue
            img = Image.open(png).convert("RGBA")
            W, H = img.size
            doc = SVGDoc(text)
            tree = doc.tree()
            vb = doc.view_box
            lfs = list(leaves(tree))
            for lf in lfs:
                if isinstance(lf.paint, Grad):
                    kinds[lf.paint.kind + ":" + lf.paint.extend] = kinds.get(lf.paint.kind + ":" + lf.paint.extend, 0) + 1
            px = vb[2] / W
            for j in range(3, H - 3, 7):
                for i in range(3, W - 3, 7):
                    p = (vb[0] + (i + 0.5) * vb[2] / W, vb[1] + (j + 0.5) * vb[3] / H)
                    if any(dist_to_contours(lf.contours, p) < 3.5 * max(vb[2] / W, vb[3] / H) for lf in lfs):
                        continue
                    # a hard stop or a repeat seam inside the pixel is an edge too: skip where the paint jumps within 2 px
                    jumpy = False
                    for lf in lfs:
                        if isinstance(lf.paint, Grad):
                            ts_ = [lf.paint.t(p)] + [lf.paint.t((p[0] + dx * 2.5 * px, p[1] + dy * 2.5 * px)) for dx, dy in ((1, 0), (-1, 0), (0, 1), (0, -1), (1, 1), (-1, -1), (1, -1), (-1, 1))]
                            if None in ts_:
                                jumpy = True
                                break
                            t0, t1, t2 = ts_[0], min(ts_), max(ts_)
                            rng = lf.paint.color_range_t(min(t0, t1, t2), max(t0, t1, t2))
                            if max(hi - lo for lo, hi in rng[:3]) > 40 or (rng[3][1] - rng[3][0]) > 0.15:
                                jumpy = True
                                break
                    if jumpy:
                        continue
                    acc = composite(tree, p)
                    a = acc[3]
                    want = tuple((acc[c] / a if a > 1e-6 else 0.0) for c in range(3)) + (a * 255.0,)
                    got = img.getpixel((i, j))
                    probes += 1
                    # compare premultiplied (what is visible)
                    for c in range(3):
                        dv = abs(want[c] * a - got[c] * got[3] / 255.0)
                        worst = max(worst, dv)
                        if dv > TOL:
                            bad += 1
                            if bad <= 8 or os.environ.get("SELFTEST_ALL"):
                                tops = [(n, repr(lf.paint)[:300]) for n, lf in enumerate(lfs) if __import__("vlib.geom", fromlist=["winding"]).winding(lf.contours, p) != 0]
                                print("  covering leaves:", tops[-2:])
                                print("MISMATCH case %d pixel (%d,%d) channel %d: ours %.1f resvg %.1f (alpha %.3f vs %.3f)\n  %s" % (k, i, j, c, want[c] * a, got[c] * got[3] / 255.0, a, got[3] / 255.0, text[:900]))
                            break
                    if abs(want[3] - got[3]) > TOL:
                        bad += 1
    finally:
        shutil.rmtree(d, ignore_errors=True)
    print("self-test: %d sources, %d probes, %d mismatches, worst channel difference %.1f/255; gradient kinds seen: %s; %d sources with a focal radius skipped (resvg ignores fr)" % (len(models) - 1, probes, bad, worst, kinds, skipped_fr))
    # residual disagreements sit where the paint changes quickly inside a pixel (sampling position / LUT resolution of the
    # renderer); the semantics under test (units, transforms, focal point, spread, stop and group opacity) show up everywhere else
    return 1 if bad > max(3, probes // 1000) else 0


if __name__ == "__main__":
    sys.exit(main())
