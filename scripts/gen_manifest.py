#!/usr/bin/env python3
"""Regenerates MANIFEST.json from the table below (so the file stays valid and consistent)."""
import json, os
HERE = os.path.dirname(os.path.dirname(os.path.abspath(__file__)))
CHECKS = {
 "C01": ("generated SVG sets/configs; reference SVG interpreter vs reference COLRv1 interpreter (display trees), Hypothesis", "§4 C01",
         "Generated-input search (Hypothesis, 16 workers) over source sets x configurations; every COLRv1 glyph is re-interpreted from the saved binary by an independent COLR interpreter and compared layer by layer (outline distance, winding, colour at probe points) with an independent SVG interpreter of the source. Sampling, not proof: absence of a violation in N thousand generated fonts.",
         "Trusted: fontTools binary decompilers, the two reference interpreters in vlib (self-tested against fontTools getTransform; SVG semantics cross-checked with resvg), tolerances of DESIGN §3.2."),

 "C15": ("exhaustive enumeration of small colour sets + Hypothesis sets/fonts vs the statement as a predicate", "§4 C15",
         "The palette function is judged on all 82 160 subsets (size <= 6) of a 21-colour universe and the 94 542 subsets (size <= 5) of a 28-colour universe that contain an alpha-only variant (exhaustive over those universes) and on generated larger sets; generated COLRv0/COLRv1 fonts are read back from the binary and every palette/paint colour fact of the statement is checked. Exhaustive only for the small universe; sampling beyond it.",
         "Trusted: fontTools CPAL/COLR decompilers; own SVG colour parser (PIL CSS table)."),
 "C16": ("generated affines/gradients at encoder branch boundaries; field-quantised recomposition per COLR spec, compile round trip, colour-at-mapped-point oracle", "§4 C16",
         "Generated affines (mixture aimed at every branch boundary and range limit of paint.transformed) and gradient geometries; each emitted paint is decoded per the COLR specification after quantising every field to its OpenType type and must reproduce the affine within the propagated quantisation bound, in isolation and after compiling into a real COLR table; out-of-range values must raise. Sampling of a continuous domain with boundary-directed generators.",
         "Trusted: fontTools COLR compiler/decompiler; the spec formulas in vlib/ref_colr.py (self-tested against fontTools getTransform)."),
 "C02": ("generated SVG sets/configs; own SVG interpreter of the stored OT-SVG documents vs reference tree; structural identity for untouched SVG", "§4 C02",
         "Generated source sets (shared shape libraries so documents group and reorder glyphs, codepoint sequences) compiled to picosvg(z)/untouchedsvg(z); the SVG table is read back, the document covering the shaped glyph must hold exactly one glyph<ID> element, which is interpreted (use/defs/inheritance/transforms) and compared with the reference tree; untouched SVG is compared structurally plus the placement matrix. Sampling.",
         "Trusted: fontTools SVG table decompiler, lxml, the reference SVG interpreter (same code reads source and output, so only meaning-preserving differences pass), tolerances derived from 3-decimal rounding of the transform chain."),
 "C03": ("generated SVG sets; COLRv0 layers / glyf contours read from the binary vs reference outlines (ordered for solid sources, perfect matching otherwise)", "§4 C03",
         "Generated sets over glyf and the three COLRv0 flavours; for solid, group-free sources the v0 layers must equal the source shapes in z-order with colour and palette alpha and be covered by the base glyph bounds; for any source the placed outlines must match the source outlines one-to-one. Sampling.",
         "Trusted: fontTools COLR/CPAL/glyf/CFF decompilers; reference SVG interpreter."),
 "C05": ("generated reuse-heavy SVG sets x quantisation; clip box vs independently computed exact bounds", "§4 C05",
         "Generated COLRv1 builds weighted to rotated/reflected/scaled reuse, user transforms and content outside the viewBox; ClipBox presence, grid alignment and containment of exact curve bounds of compiled outlines (after all paint transforms) and of source shapes are recomputed from the binary and the source. Sampling.",
         "Trusted: fontTools decompilers; exact bounds code in vlib/geom.py."),
 "C06": ("metamorphic: same generated sources built with reuse tolerance t and -1, display trees compared layer-wise", "§4 C06",
         "Metamorphic relation over generated sets with recurring shapes under all affine classes incl. near-misses: reuse-on and reuse-off builds must both succeed and be layer-for-layer equivalent (COLRv1, COLRv0, picosvg). No reference to the source needed. Sampling.",
         "Trusted: the COLR/SVG interpreters (same interpreter on both sides); budgets = tolerance + quantisation of both builds."),
 "C19": ("generated isometric families; stored-outline identity read from the binary; complement at tolerance -1", "§4 C19",
         "Generated families of exact isometric copies (>= 6 decimals) across 1-3 glyphs; every member must resolve to one stored outline (COLR glyph / SVG path + use), and to separate outlines with reuse disabled. Sampling; misses are classified by root cause with picosvg's own key function.",
         "Trusted: fontTools decompilers; picosvg.normalize used only to classify a miss (third-party key function)."),
 "C04": ("generated codepoint-sequence sets x 13 formats; reference shaper + signature artwork identity", "§4 C04",
         "Generated sets of interacting codepoint sequences in all 13 formats; the reloaded font is shaped with an independent cmap+ccmp shaper and each source must reach a distinct glyph carrying its own signature artwork; blank/notdef/space/advance rules and 'only from them' probes. Sampling.",
         "Trusted: fontTools cmap/GSUB decompilers; the 30-line shaper (OpenType ligature algorithm, lookup flag 0)."),
 "C14": ("generated PNG sets x metrics x {cbdt,sbix} (+ gid-gap fonts through make_cbdt_table); byte identity and placement formulas from the statement", "§4 C14",
         "Generated bitmap builds; stored image bytes, ppem, vertical/horizontal placement, pixel advance and rejection of unrepresentable combinations are recomputed from the statement's formulas on the reloaded CBDT/CBLC/sbix tables. Sampling.",
         "Trusted: fontTools CBDT/CBLC/sbix decompilers. 'Within rounding' is read as: either scale ppem/upem or h/emh (ppem is itself a rounding), plus half a font unit of advance."),
 "C10": ("generated round trips: config TOML (incl. flag/file/default precedence), glyph-map CSV, ninja response files, file-name/glyph-name codecs, parts JSON", "§4 C10",
         "Five generated round trips with equality oracles (write -> read == original; precedence model flag > file > default; injectivity and legality of glyph names incl. a feaLib parse); real ninja for response files. Sampling of large string/number domains.",
         "Trusted: Python csv/json, fontTools feaLib parser, ninja. Third-party toml 0.10.2 cannot round-trip non-printable characters (excluded)."),
 "C11": ("generated fonts with all GSUB/GPOS/GDEF lookup types and formats x permutations; name-keyed semantic normal form before/after reorder+save+reload; stored coverage order", "§4 C11",
         "Generated fonts (feaLib-compiled grammar + hand-assembled Context/ChainContext formats 1-3, extension lookups, GDEF, COLR v0/v1, TrueType and CFF) are reordered by generated permutations; a name-keyed normal form of every table must be unchanged after save+reload, every stored Coverage and PairSet must be in glyph-id order. Sampling; each _REORDER_RULES entry was deleted in turn and is detected.",
         "Trusted: fontTools compilers/decompilers; vlib/layoutsem.py normal form (raises on a subtable kind it cannot express)."),
 "C13": ("generated COLR paint graphs (depth <= 6, all supported paint formats) in fontBuilder fonts; own SVG interpreter of colr_to_svg output vs own COLR interpreter", "§4 C13",
         "Generated third-party-style COLRv0/v1 fonts with recursive paint graphs over every supported paint format, palettes, foreground colour and three viewBox choices; the SVG produced for each colour glyph is interpreted and compared, in the em box, with the paint graph's display tree; planted unsupported nodes must raise or warn. Sampling.",
         "Trusted: fontTools colorLib builder / COLR decompiler; the two interpreters in vlib (both ours, so only the conversion is judged)."),
 "C08": ("metamorphic: same generated sources built by the real CLI under permuted argv / hash seeds / ninja -j / step latencies / other locations; sha256 equality (+ API tier in fresh interpreters)", "§4 C08",
         "Generated source sets are built by the real console script under a base and three varied environments (argument order, PYTHONHASHSEED, ninja parallelism through a PATH shim, seeded per-step latencies, another absolute location/cwd/build dir) and, at API level, in fresh interpreters with different hash seeds; all outputs must be byte-identical. Schedules are sampled, not enumerated.",
         "Trusted: SOURCE_DATE_EPOCH pins timestamps; resvg/pngquant/zopfli deterministic."),
 "C09": ("generated edit/option/fault histories on one build directory driven through the real CLI; invariant: bytes == clean build after every success, faulted runs exit != 0", "§4 C09",
         "Stateful generation of histories (add/modify/rename/remove sources, option changes by flag or TOML, invocations with injected faults at every step kind and in the driver, in five modes); after every successful invocation the font must equal a clean build of the current inputs in an empty directory, and every invocation in which a fault fired must exit non-zero. Fault enumeration over step kinds x modes, sampled histories.",
         "Trusted: fault injector (sitecustomize + PATH shims) logs every firing; crash points are per step kind, not per instruction."),
 "C17": ("generated valid source sets + one injected defect (14 classes) through the real CLI; exit status / no fresh font, else C04-style judgement of the emitted font", "§4 C17",
         "Generated valid sets with one planted defect at a drawn position, in the formats where the class applies; the real console script must exit non-zero without writing a font, and if it exits 0 every source must still be reachable at its own glyph with its own artwork. Sampling of positions/sets; the defect classes are enumerated by the generator.",
         "Trusted: process exit status; fontTools decompilers; the reference shaper."),
 "C20": ("enumerated single-option perturbations (flag / file / both / none) against a field->observable table on CLI-built fonts; pairs of configs vs solo builds (bytes)", "§4 C20",
         "Every field of the option table is perturbed by flag and by file on every run (all channels and families in the thorough tier) and the observable it must determine is read from the font the real CLI writes (all other observables must stay at their expected values); every pair option is built jointly and solo and compared bytewise. Finite enumeration of fields/channels plus generated combinations.",
         "Trusted: fontTools decompilers; reference interpreters for the transform observable; SOURCE_DATE_EPOCH for byte equality."),
 "C07": ("generated fonts of all 13 formats + real CLI build directories; raw-byte ordering/range/reference predicates and save->reload->TTX equality", "§4 C07",
         "Fonts from the vector, raw-SVG, sequence and bitmap generators in every format, plus every font file found in real nanoemoji / maximum_color build directories, are checked against table-level predicates read from the raw bytes (orderings) and the decompiled font (ranges, references, id uniqueness, glyph-set agreement) and must survive save+reload with equal TTX. Sampling.",
         "Trusted: fontTools decompilers for everything but the ordering facts; lxml."),
 "C12": ("generated nanoemoji-style and third-party-style COLR/SVG fonts x flags through the real maximum_color CLI; input vs output by the text that reaches each glyph; new table vs old table as display trees", "§4 C12",
         "Generated input fonts (nanoemoji's own output in five formats; third-party-style COLR fonts from the paint-graph generator with/without space glyph, layout tables, palettes, post 2/3; self-layer fonts) are run through the real maximum_color with generated flags; cmap, advances, outlines, the original colour table, layout meaning and post format must be unchanged and the added table must paint the same picture; bitmaps per C14; every intermediate font per C07. Sampling.",
         "Trusted: the COLR/SVG interpreters (both tables of the output are read by ours), fontTools, resvg/picosvg as tools."),
 "C18": ("generated compatible master sets through the real CLI; VF evaluated at master locations (own VarStore evaluation) vs static builds; clip box containment along the axis", "§4 C18",
         "Generated 2-3 master configurations (drawn axis range, default master, file/name order independent of position order, per-master coordinates and gradient geometry) built by the real CLI as a variable font and as one static font per master; trees, advances and clip boxes must agree at every master location and at the default, clip boxes must contain the interpolated geometry at intermediate locations. Sampling.",
         "Trusted: fontTools gvar/HVAR glyph-set interpolation and VarStoreInstancer; PaintVar*/ClipBox format 2 evaluated by vlib/ref_colr.py."),
}
NOT_APPLICABLE = []
def main():
    props = [json.loads(l)["id"] for l in open(os.path.join(HERE, "properties.jsonl"))]
    checks = []
    for pid in props:
        if pid not in CHECKS:
            continue
        tech, ref, text, note = CHECKS[pid]
        checks.append({
            "property_id": pid,
            "quick_cmd": "./check %s --tier quick" % pid,
            "thorough_cmd": "./check %s --tier thorough" % pid,
            "evidence_file": "evidence/%s.json" % pid,
            "replay_cmd_template": "./check %s --replay {path}" % pid,
            "engine": "vlib",
            "level_claimed": {"category": "fault_enumeration" if pid == "C09" else "exploration", "text": text, "design_ref": ref},
            "level_note": note,
            "technique": "property-based testing: " + tech,
        })
    na = [dict(property_id=p, reason=r) for p, r in NOT_APPLICABLE]
    claimed = {c["property_id"] for c in checks}
    for pid in props:
        if pid not in claimed and pid not in {n["property_id"] for n in na}:
            na.append({"property_id": pid, "reason": "check not built yet (work in progress; the technique applies, see DESIGN.md)"})
    m = {
        "version": 1,
        "setup_cmd": "./scripts/setup.sh",
        "hooks": {
            "guard": "GOOGLEFONTS_NANOEMOJI_VERIF",
            "enable": "no source hooks are needed: checks import /repo/src directly (PYTHONPATH) and drive the console scripts with PATH=/venv/bin; the guard variable is exported by ./check but no code in /repo reads it",
            "baseline_off_cmd": "./scripts/repo_tests.sh",
            "source_commits": [],
            "add_only": True,
        },
        "engines": [{"name": "vlib", "path": "vlib/", "serves_properties": sorted(claimed),
                     "kind_free_text": "Hypothesis-driven generators + reference interpreters/oracles, 16-process runner (vlib/runner.py), entry ./check"}],
        "checks": checks,
        "notes": "All checks: ./check <ID> --tier quick|thorough ; replay: ./check <ID> --replay <file>. VERIF_SEED selects the Hypothesis seeds. Known findings: known_findings.json.",
        "not_applicable": na,
    }
    json.dump(m, open(os.path.join(HERE, "MANIFEST.json"), "w"), indent=1)
    print("wrote MANIFEST.json with", len(checks), "checks;", len(na), "not claimed")
if __name__ == "__main__":
    main()
