#!/bin/bash
# Runs the repository's pinned test suite (guard OFF) exactly as /root/.vp/BASELINE.json does and compares the set of
# passing tests with the baseline's stable_pass list. Exit 0 iff every stable test still passes.
REPO="${1:-/repo}"
OUT="$(mktemp -d /tmp/nanoverif-tests-XXXXXX)"
unset GOOGLEFONTS_NANOEMOJI_VERIF
cd "$REPO" && /venv/bin/python -m pytest -ra -q -p no:cacheprovider --timeout=900 --continue-on-collection-errors --junitxml="$OUT/junit.xml" >"$OUT/log.txt" 2>&1
/venv/bin/python - "$OUT/junit.xml" <<'PY'
import json, sys, xml.etree.ElementTree as ET
base = json.load(open("/root/.vp/BASELINE.json"))
stable = set(base["stable_pass"]) if isinstance(base.get("stable_pass"), list) else None
passed = set()
for tc in ET.parse(sys.argv[1]).getroot().iter("testcase"):
    tid = (tc.get("classname") or "") + "::" + (tc.get("name") or "")
    if not any(ch.tag in ("failure", "error", "skipped") for ch in tc):
        passed.add(tid)
print("passed:", len(passed))
if stable is not None:
    missing = sorted(stable - passed)
    print("baseline stable:", len(stable), "missing:", len(missing))
    for m in missing[:20]:
        print("  MISSING", m)
    sys.exit(1 if missing else 0)
PY
rc=$?
tail -3 "$OUT/log.txt"
rm -rf "$OUT"
exit $rc
