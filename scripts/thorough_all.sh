#!/bin/bash
# Runs every thorough tier once on the unchanged tree (long: hours) and prints the summary line and any alarm of each.
cd "$(dirname "$0")/.."
for p in ${@:-C01 C02 C03 C04 C05 C06 C07 C08 C09 C10 C11 C12 C13 C14 C15 C16 C17 C18 C19 C20}; do
  start=$(date +%s)
  out=$(./check $p --tier thorough --no-evidence 2>&1); rc=$?
  echo "=== $p exit $rc ($(( $(date +%s) - start )) s)"
  echo "$out" | grep "failure kind\|VIOLATION\|HARNESS\|INCONCLUSIVE\|^$p tier" | cut -c1-900 | head -12
done
