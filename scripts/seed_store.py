#!/usr/bin/env python3
"""Files a confirmed seeded change: scripts/seed_store.py <src dir> <dest name> '<killed by>' '<note>'"""
import json, os, shutil, sys
src, name, killed, note = sys.argv[1:5]
dst = os.path.join(os.path.dirname(os.path.dirname(os.path.abspath(__file__))), "seeded", name)
os.makedirs(dst, exist_ok=True)
for f in os.listdir(src):
    if f.endswith((".diff", ".py", ".json", ".sh", ".svg", ".toml")):
        shutil.copy(os.path.join(src, f), dst)
m = json.load(open(os.path.join(dst, "meta.json")))
m["confirmed"] = {"ran": "scripts/seeded_verify.sh (fresh worktree of /repo HEAD): demo exit 0 without the patch, exit 1 with it; repo suite 235 passed with the patch; checks run with VERIF_REPO=<patched worktree>",
                  "killed_by": killed.split(";"), "note": note}
json.dump(m, open(os.path.join(dst, "meta.json"), "w"), indent=1)
print("stored", dst)
