#!/bin/bash
# Confirms a seeded change delivered by a sub-agent and runs our checks against it.
#   scripts/seeded_verify.sh <dir with patch.diff demo.py meta.json> [checks...]
# 1. fresh worktree of /repo HEAD at a neutral path, 2. repo tests pass with the patch, 3. demo passes without / fails with,
# 4. the given checks (default: the property in meta.json) are run with VERIF_REPO pointing at the patched worktree.
set -u
SRC="$1"; shift
PROP=$(python3 -c "import json,sys; print(json.load(open('$SRC/meta.json'))['property'])")
CHECKS="${@:-$PROP}"
WT=/tmp/nvw/wt$$
mkdir -p /tmp/nvw
git -C /repo worktree add -q --detach "$WT" HEAD || exit 2
trap 'git -C /repo worktree remove --force "$WT" >/dev/null 2>&1; rm -rf "$WT"' EXIT
echo "== demo without patch"
PYTHONPATH="$WT/src" PATH=/venv/bin:$PATH timeout 900 /venv/bin/python "$SRC/demo.py" "$WT" >/tmp/nvw/demo0.log 2>&1; echo "exit $? : $(tail -1 /tmp/nvw/demo0.log | cut -c1-200)"
git -C "$WT" apply "$SRC/patch.diff" || { echo "patch does not apply"; exit 2; }
echo "== repo tests with patch"
(cd "$WT" && unset GOOGLEFONTS_NANOEMOJI_VERIF; PYTHONPATH="$WT/src" /venv/bin/python -m pytest -q -p no:cacheprovider --timeout=900 -x -q 2>&1 | tail -2) > /tmp/nvw/tests.log
PASSED=$(grep -o "[0-9]* passed" /tmp/nvw/tests.log | head -1); FAILED=$(grep -o "[0-9]* failed" /tmp/nvw/tests.log | head -1)
(cd "$WT" && PYTHONPATH="$WT/src" /venv/bin/python -m pytest -q -p no:cacheprovider --timeout=900 2>&1 | tail -1)
echo "== demo with patch"
PYTHONPATH="$WT/src" PATH=/venv/bin:$PATH timeout 900 /venv/bin/python "$SRC/demo.py" "$WT" >/tmp/nvw/demo1.log 2>&1; echo "exit $? : $(tail -1 /tmp/nvw/demo1.log | cut -c1-200)"
for c in $CHECKS; do
  echo "== check $c against the patched tree"
  VERIF_REPO="$WT" ./check $c --no-evidence 2>&1 | grep "failure kind\|VIOLATION\|^C[0-9][0-9] \|HARNESS" | cut -c1-260 | head -8
done
rm -rf /verif/replays
