import io
from collections import OrderedDict
from vlib import build
build.init()
from vlib.minifont import make_cff_font
from vlib.layoutsem import base_sem, diff_sem
from nanoemoji.reorder_glyphs import reorder_glyphs
from nanoemoji.util import load_fully
from fontTools.ttLib import TTFont
glyphs=OrderedDict([(".notdef",([[(0,0),(0,10),(10,10)]],None))])
for i in range(5): glyphs["g%d"%i]=([[(i,0),(i,100+3*i),(120+5*i,100+3*i)]],None)
font,_=make_cff_font(glyphs,{0x41+i:"g%d"%i for i in range(5)},advances={"g%d"%i:500+7*i for i in range(5)})
font=load_fully(font)
b=base_sem(font)
reorder_glyphs(font,[".notdef","g3","g0","g4","g1","g2"])
buf=io.BytesIO(); font.save(buf); f2=TTFont(io.BytesIO(buf.getvalue()),lazy=False)
print(f2.getGlyphOrder())
print(diff_sem(b,base_sem(f2)))
