import hypothesis, json
from hypothesis import given, settings, Phase, HealthCheck
from vlib.props import c09
c09.setup_worker()
cases=[]
@hypothesis.seed(5)
@settings(max_examples=6, database=None, deadline=None, phases=[Phase.generate], suppress_health_check=list(HealthCheck))
@given(c09.cases("quick"))
def t(case): cases.append(case)
t()
for c in cases[-2:]:
    print([ (s["op"], s.get("fault"), s.get("key")) for s in c["steps"]])
    v=c09.judge(c); print(v.classes, v.failures, v.nontrivial, v.extra_evals)
