import json, sys
from vlib import build
build.init()
from vlib.vecoracle import *
d=json.load(open(sys.argv[1])); case=d["case"]; cfg=case["cfg"]
srcs=to_build_sources(case) if not case.get("raw") else case["sources"]
r=build.build_font(cfg,srcs)
font=r.font
print(font.getGlyphOrder())
print([(a,b,len(doc)) for doc,a,b in font["SVG "].docList])
