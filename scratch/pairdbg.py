import sys
from vlib.props import c20
from vlib.cli import Workspace, tail
opt,share=sys.argv[1],sys.argv[2]
fam,vals=c20.PAIR_OPTIONS[opt]
case={"t":"pair","option":opt,"family":fam,"values":vals,"share":share}
import vlib.props.c20 as m
v=m.judge(case)
for k,key,d in v.failures:
    print(k,key); print("\n".join(l for l in d.get("out","").splitlines() if "rror" in l or "FAILED" in l or "ninja:" in l)[:1500]); print({x:y for x,y in d.items() if x!="out"})
