import time
from vlib.minifont import make_font
from vlib.ref_colr import ColrReader
from collections import OrderedDict
t=time.time()
for i in range(50):
    g=OrderedDict([(".notdef",([[(0,0),(0,10),(10,10)]],None)),("sq",([[(100,100),(100,500),(600,500),(600,100)]],None)),("c0",([],None))])
    f,d=make_font(g,{0xe000:"c0"},colr={"c0":{"Format":10,"Glyph":"sq","Paint":{"Format":4,"ColorLine":{"ColorStop":[(0,0),(1,1)],"Extend":"pad"},"x0":0,"y0":0,"x1":100,"y1":0,"x2":0,"y2":100}}})
    t_=ColrReader(f).tree("c0")
print((time.time()-t)/50, t_[0].paint)
