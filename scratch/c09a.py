import shutil, os
from vlib.cli import *
from vlib.props import c09
svg='<svg xmlns="http://www.w3.org/2000/svg" viewBox="0 0 100 100"><defs/><path d="M10,10 L60,10 L60,60 Z" fill="red"/></svg>'
with Workspace("t") as ws:
    ws.shims(); root=ws.path("proj"); os.makedirs(root+"/src")
    ws.write("proj/src/emoji_u1f600.svg", svg); ws.write("proj/src/emoji_u1f601.svg", svg.replace("red","blue"))
    print(c09.invoke(ws,root,{},False)[0])
    rc,out,f=c09.invoke(ws,root,{"color_format":"cbdt"},False,"pngquant-bin:truncate_kill"); print(rc, ws.fault_fired())
    rc,out,f=c09.invoke(ws,root,{"color_format":"cbdt"},False); print(rc); print(out[-2500:])
