import json
case={"cfg":{"upem":1024,"ascender":950,"descender":-250,"width":1275,"linegap":0,"color_format":"glyf_colr_1","transform":[1,0,0,1,0,0],"reuse_tolerance":0.1,"clipbox_quantization":None,"keep_glyph_names":True,"pretty_print":False},
 "sources":[{"cps":[0xe000],"model":{"vb":[0,0,100,100],"nodes":[{"t":"p","d":[["M",10,10],["L",90,10],["L",90,90],["L",10,90],["Z"]],"op":1.0,"tag":"fresh",
   "fill":{"k":"lin","units":"user","x1":10,"y1":10,"x2":90,"y2":10,"gt":None,"spread":"repeat","stops":[[0.2,"#ff0000",1.0],[0.8,"#0000ff",1.0]]}}]}}]}
json.dump({"note":"K1: repeat gradient whose stops do not span [0,1]","case":case},open("corpus/C01/k1_extend_domain.json","w"),indent=1)
