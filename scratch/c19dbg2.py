import json, sys
from vlib import build
build.init()
from vlib.vecoracle import *
from vlib.gen_svg import render, model_paths
from picosvg.svg_reuse import normalize, affine_between
from picosvg.svg_types import SVGPath
from picosvg.svg import SVG
from nanoemoji.color_glyph import map_viewbox_to_font_space
from picosvg.svg_transform import Affine2D
from picosvg.geometric_types import Rect
d=json.load(open(sys.argv[1])); case=d["case"]; cfg=case["cfg"]
tol=cfg["reuse_tolerance"]
fam=[]
for s in case["sources"]:
    svg=SVG.fromstring(render(s["model"]))
    vb=svg.view_box()
    adv=max(cfg["width"], round((cfg["ascender"]-cfg["descender"])*vb.w/vb.h))
    t=map_viewbox_to_font_space(vb,cfg["ascender"],cfg["descender"],adv,Affine2D.identity())
    for p,m in zip(svg.shapes(),model_paths(s["model"])):
        if m["tag"].startswith("fam"): fam.append((m["tag"],p.as_path().apply_transform(t)))
n0=normalize(fam[0][1],tol/10).d
for tag,p in fam:
    print(tag, normalize(p,tol/10).d==n0, affine_between(fam[0][1],p,tol))
    if normalize(p,tol/10).d!=n0: print("  ",normalize(p,tol/10).d[:200]); print("  ",n0[:200])
