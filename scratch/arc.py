import math
from fontTools.svgLib.path import parse_path
from fontTools.pens.recordingPen import RecordingPen
from vlib.geom import segments, flatten_segments
rp=RecordingPen(); parse_path("M11.1681,19.104749 A6.8319,10.051685 0 0 1 24.8319,19.104749 Z", rp)
print(rp.value)
cx=(11.1681+24.8319)/2; cy=19.104749
pts=flatten_segments(segments(rp.value),0.0001)[0]
worst=max(abs(math.hypot((x-cx)/6.8319,(y-cy)/10.051685)-1) for x,y in pts if y<cy-0.01)
print("max rel radial error",worst, worst*10.05*561)
from picosvg.svg_types import SVGPath
p=SVGPath(d="M11.1681,19.104749 A6.8319,10.051685 0 0 1 24.8319,19.104749 Z").arcs_to_cubics()
print(p.d)
