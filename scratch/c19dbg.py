import json, sys, logging
from vlib import build
build.init()
from absl import logging as alog
alog.set_verbosity(alog.WARNING)
from vlib.vecoracle import *
from vlib.gen_svg import render, model_paths
d=json.load(open(sys.argv[1])); case=d["case"]; cfg=case["cfg"]
print(cfg)
for s in case["sources"]:
    for p in model_paths(s["model"]): print(p["tag"], p.get("angle"), [c[0] for c in p["d"]][:12])
    print(render(s["model"])[:1200])
r=build.build_font(cfg,to_build_sources(case))
# direct picosvg check
from picosvg.svg_reuse import normalize, affine_between
from picosvg.svg_types import SVGPath
from picosvg.svg import SVG
svg=SVG.fromstring(render(case["sources"][0]["model"]))
paths=[e for e in svg.shapes()]
fam=[p for p,m in zip(paths,model_paths(case["sources"][0]["model"])) if m["tag"].startswith("fam")]
for p in fam:
    print(normalize(p.as_path(), 0.05).d[:150])
print(affine_between(fam[0].as_path(), fam[-1].as_path(), 0.5))
