import json, sys, traceback
from vlib import build
build.init()
from vlib.vecoracle import *
d=json.load(open(sys.argv[1])); case=d["case"]; cfg=case["cfg"]
r=build.build_font(cfg,to_build_sources(case))
if r.error: traceback.print_exception(r.error)
else: print("built ok")
