import sys, collections
from hypothesis import given, settings, seed, HealthCheck
from vlib.props import c01
c01.setup_worker()
from nanoemoji import paint
cnt=collections.Counter()
hit=[0]
for cls in (paint.PaintLinearGradient, paint.PaintRadialGradient):
    def mk(orig):
        def f(self, *a, **k):
            try: return orig(self, *a, **k)
            except OverflowError:
                hit[0]+=1; raise
        return f
    cls.apply_transform=mk(cls.apply_transform)
@seed(5)
@settings(max_examples=200, database=None, deadline=None, suppress_health_check=list(HealthCheck))
@given(c01.far_reuse_case(c01.FORMATS, "quick"))
def t(case):
    hit[0]=0
    v=c01.judge(case)
    cfg=case["cfg"]
    g=case["sources"][-1]["model"]["nodes"][-1]["fill"]
    key=(cfg["upem"], g["k"])
    cnt[key+("n",)]+=1
    if hit[0]: cnt[key+("overflow",)]+=1
    if getattr(v,"rejected",None): cnt[key+("rej",)]+=1
    if any(f[0]=="GRADIENT" for f in v.failures): cnt[key+("FAIL",)]+=1
t()
for k in sorted(cnt): print(k,cnt[k])
