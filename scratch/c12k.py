import sys, collections, os
from hypothesis import given, settings, seed, HealthCheck
from vlib.props import c12
c12.setup_worker()
cnt=collections.Counter()
@seed(11)
@settings(max_examples=16, database=None, deadline=None, suppress_health_check=list(HealthCheck))
@given(c12.case_st("quick").filter(lambda c: c["kind"]=="nano" and c["fmt"]=="picosvg" and len(c["vc"]["sources"])>=2))
def t(case):
    v=c12.judge(case)
    cnt["n"]+=1
    for f in v.failures[:3]: cnt[f[0]+":"+f[1][:40]]+=1
    if getattr(v,"rejected",None): cnt["rej:"+str(v.rejected)[:40]]+=1
    if getattr(v,"discard",None): cnt["disc:"+str(v.discard)[:40]]+=1
t()
print(cnt)
