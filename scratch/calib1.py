import sys, glob, os, time
from vlib import build
build.init()
from picosvg.svg import SVG
from vlib.ref_svg import SVGDoc, em_transform
from vlib.ref_colr import ColrReader, self_test
from vlib.display import map_tree, compare, Budget, describe
from vlib.geom import I
self_test()
names = [os.path.basename(p) for p in sorted(glob.glob("/repo/tests/*.svg"))]
skip = {"otsvg_bungee_style.svg","otsvg_nanoemoji_style.svg","otsvg_nanoemoji_style_glyph4.svg","empty.svg"}
names = [n for n in names if n not in skip and "_from_colr" not in n]
ok=[]
for n in names:
    try: ok.append((n, SVG.parse("/repo/tests/"+n).topicosvg().tostring()))
    except Exception as e: print("picosvg fail", n, type(e).__name__)
cfgs = [dict(upem=1024, ascender=950, descender=-250, width=1275), dict(upem=100, ascender=100, descender=0, width=100), dict(upem=2048, ascender=1800, descender=-400, width=0)]
for fmt in ("glyf_colr_1","picosvg","cff_colr_1"):
  for ci,c in enumerate(cfgs):
    t0=time.time()
    srcs=[{"svg":s,"cps":[0xe000+i]} for i,(n,s) in enumerate(ok)]
    r=build.build_font(dict(color_format=fmt, keep_glyph_names=True, **c), srcs, fea=None)
    if r.error: print("BUILD ERROR", fmt, ci, repr(r.error)); continue
    font=r.font; tb=time.time()-t0
    worst=0; bad=0
    rd = ColrReader(font) if "COLR" in font else None
    for i,(n,s) in enumerate(ok):
        d=SVGDoc(s); m,adv=em_transform(d.view_box, c["ascender"], c["descender"], c["width"]); ref=map_tree(d.tree(), m)
        gn=font.getBestCmap()[0xe000+i]
        if rd: impl=rd.tree(gn); bud=Budget("colr",c["upem"],0.1,m[0],cff=fmt.startswith("cff"))
        else:
            gid=font.getGlyphID(gn); docs=[dd for dd,a,b in font["SVG "].docList if a<=gid<=b]
            impl=map_tree(SVGDoc(docs[0]).glyph_tree(gid),(1,0,0,-1,0,0)) if docs else []
            bud=Budget("otsvg",c["upem"],0.1,m[0])
        res,margin=compare(impl,ref,bud)
        worst=max(worst,margin)
        if res or font["hmtx"][gn][0]!=adv:
            bad+=1; print("BAD",fmt,ci,n,res[:2],font["hmtx"][gn][0],adv)
    print(fmt,ci,"glyphs",len(ok),"bad",bad,"worst margin %.2f"%worst,"build %.1fs total %.1fs"%(tb,time.time()-t0))
