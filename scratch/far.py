import sys, collections
from hypothesis import given, settings, seed, HealthCheck
from vlib.props import c01
c01.setup_worker()
cnt=collections.Counter()
@seed(5)
@settings(max_examples=150, database=None, deadline=None, suppress_health_check=list(HealthCheck))
@given(c01.far_reuse_case(c01.FORMATS, "quick"))
def t(case):
    v=c01.judge(case)
    cnt["n"]+=1
    if v.failures: cnt["fail"]+=1; cnt[v.failures[0][0]]+=1
    if getattr(v,"rejected",None): cnt["rej:"+str(v.rejected)]+=1
    if getattr(v,"discard",None): cnt["disc:"+str(v.discard)]+=1
    for c in v.classes:
        if c.startswith(("reuse","branch","far")): cnt[c]+=1
t()
print(cnt)
