import sys, collections
from hypothesis import given, settings, seed, HealthCheck
from vlib.props import c01, c02
c02.setup_worker() if hasattr(c02,'setup_worker') else c01.setup_worker()
cnt=collections.Counter()
mod = c02 if sys.argv[1]=="c02" else c01
fm = ["picosvg"] if sys.argv[1]=="c02" else c01.FORMATS
@seed(5)
@settings(max_examples=150, database=None, deadline=None, suppress_health_check=list(HealthCheck))
@given(c01.paint_variants_case(fm, "quick"))
def t(case):
    v=mod.judge(case)
    cnt["n"]+=1
    if v.failures: cnt["fail"]+=1; cnt[v.failures[0][0]]+=1
    if getattr(v,"rejected",None): cnt["rej:"+str(v.rejected)]+=1
    if getattr(v,"discard",None): cnt["disc:"+str(v.discard)]+=1
t()
print(cnt)
