import json, sys
from vlib import build
build.init()
from vlib.vecoracle import *
d=json.load(open(sys.argv[1])); case=d["case"]; cfg=case["cfg"]
srcs=to_build_sources(case)
r=build.build_font(cfg,srcs)
font=r.font
for doc,a,b in font["SVG "].docList:
    print(a,b); print(doc[:int(sys.argv[2]) if len(sys.argv)>2 else 3000])
