from vlib.props import c17
from vlib import build
import traceback
c17.setup_worker()
srcs=[{"svg": c17.good_svg(0), "cps":[0x2764], "name":"shared_name"},{"svg": c17.good_svg(1), "cps":[0x41]},{"svg": c17.good_svg(2), "cps":[0x2764,0xFE0F], "name":"shared_name"}]
r=build.build_font({"color_format":"glyf_colr_1","keep_glyph_names":True}, srcs)
print(r.error)
if r.error: traceback.print_exception(r.error)
