from vlib.props import c04
from vlib import build
c04.setup_worker()
cfg={"upem":1000,"ascender":950,"descender":-250,"width":1275,"linegap":0,"color_format":"picosvg","keep_glyph_names":True,"bitmap_resolution":32}
srcs=[]
for i,(cp,b) in enumerate([(0x1F600,True),(0x1F601,False),(0x1F602,True),(0x1F603,False)]):
    s,vb=c04.source_for(i,cfg,1.0,badge=b); s["cps"]=[cp]; srcs.append(s)
print(srcs[0]["svg"])
r=build.build_font(cfg,srcs)
f=r.font
print(f.getGlyphOrder())
for d in f["SVG "].docList: print(d.startGlyphID, d.endGlyphID, d.data[:300].replace("\n"," "))
