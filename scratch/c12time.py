import hypothesis, time
from hypothesis import given, settings, Phase, HealthCheck
from vlib.props import c12
c12.setup_worker()
@hypothesis.seed(3)
@settings(max_examples=7, database=None, deadline=None, phases=[Phase.generate], suppress_health_check=list(HealthCheck))
@given(c12.cases("quick"))
def t(case):
    t0=time.time(); v=c12.judge(case)
    print(round(time.time()-t0,1), case["kind"], case.get("fmt"), case["flags"], [f[:2] for f in v.failures], v.discard, v.rejected, flush=True)
t()
