import json, sys, io
from vlib.props import c12
from vlib.cli import Workspace
from fontTools.ttLib import TTFont
c12.setup_worker()
d=json.load(open(sys.argv[1])); case=d["case"]
data,_=c12.make_input(case)
fin=TTFont(io.BytesIO(data))
with Workspace("m") as ws:
    ws.shims(); ws.write("in.ttf", data)
    rc,out=ws.run(["maximum_color","--build_dir",ws.path("b"),"--keep_glyph_names",ws.path("in.ttf")])
    fo=TTFont(ws.path("b","Font.ttf"))
    g=fo.getBestCmap()[57345]; gid=fo.getGlyphID(g)
    for doc in fo["SVG "].docList:
        if doc.startGlyphID<=gid<=doc.endGlyphID:
            import re
            txt=doc.data
            i=txt.find('id="glyph%d"'%gid)
            print(txt[:600]); print(txt[txt.find("<path"):][:700])
    from fontTools.misc.testTools import getXML
    t=fin["COLR"].table
    for r in t.BaseGlyphList.BaseGlyphPaintRecord:
        if r.BaseGlyph==g:
            print("\n".join(getXML(r.Paint.toXML, fin))[:3000])


