import os, subprocess, sys, tempfile
import hypothesis
from hypothesis import HealthCheck, Phase, given, settings
from PIL import Image
from vlib.display import composite, leaves
from vlib.gen_svg import render, source_model
from vlib.ref_svg import SVGDoc
models=[]
@hypothesis.seed(4)
@settings(max_examples=61, database=None, deadline=None, phases=[Phase.generate], suppress_health_check=list(HealthCheck))
@given(source_model({}, None, max_shapes=4, p_grad=0.6))
def collect(m): models.append(m)
collect()
m=models[1:][7]
text=render(m).replace("currentColor","black")
print(text)
d=tempfile.mkdtemp(); open(d+"/a.svg","w").write(text)
subprocess.run(["/venv/bin/resvg","-h","192",d+"/a.svg",d+"/a.png"])
im=Image.open(d+"/a.png").convert("RGBA")
doc=SVGDoc(text); tree=doc.tree(); vb=doc.view_box
for (i,j) in [(45,122),(45,129),(45,136),(45,100),(60,136)]:
    p=(vb[0]+(i+0.5)*vb[2]/192, vb[1]+(j+0.5)*vb[3]/192)
    acc=composite(tree,p); lf=list(leaves(tree))[1]
    print((i,j), "ours premult", [round(x,1) for x in acc], "resvg", im.getpixel((i,j)), "t", lf.paint.t(p))
