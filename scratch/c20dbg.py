from vlib.props import c20
from vlib.cli import Workspace
case={"t": "single", "field": "glyphmap_generator", "family": "vector", "channel": "flag", "value": "my_glyphmap", "other": "my_glyphmap"}
with Workspace("t") as ws:
    ws.shims()
    rc,out,_,_=c20.build_single(ws,case)
    print(rc); print("\n".join(l for l in out.splitlines() if "rror" in l or "FAILED" in l or "my_glyphmap" in l)[:3000])
