import json, sys
from vlib.props import c19
from vlib import build
c19.setup_worker()
from nanoemoji import glyph_reuse
orig=glyph_reuse.GlyphReuseCache.try_reuse
def tr(self, path, *a, **k):
    r=orig(self, path, *a, **k)
    from picosvg.svg_reuse import normalize, affine_between
    from picosvg.svg_types import SVGPath
    print("try_reuse", path[:80], "->", r, "tol", self._reuse_tolerance, self._normalize_tolerance)
    key=normalize(SVGPath(d=path), self._normalize_tolerance).d
    print("   key:", key[:300], key in self._reusable_paths)
    return r
glyph_reuse.GlyphReuseCache.try_reuse=tr
oa=glyph_reuse.GlyphReuseCache.add_glyph
def ag(self, name, path):
    from picosvg.svg_reuse import normalize
    from picosvg.svg_types import SVGPath
    print("add_glyph", name, path[:80]); 
    print("   key:", normalize(SVGPath(d=path), self._normalize_tolerance).d[:300])
    return oa(self,name,path)
glyph_reuse.GlyphReuseCache.add_glyph=ag
d=json.load(open(sys.argv[1])); case=d["case"]
v=c19.judge(case)
print(v.failures)
