from vlib import build
build.init()
A='<svg xmlns="http://www.w3.org/2000/svg" viewBox="0 0 100 100"><defs/><path d="M10,10 L50,10 L50,50 Z" fill="red"/></svg>'
r=build.build_font({"color_format":"picosvgz"},[{"svg":A,"cps":[0xe000]}])
d=r.font["SVG "].docList[0]; print(type(d), d[1:], getattr(d,"compressed",None), r.data.count(b"\x1f\x8b\x08"))
