import json, sys
from vlib import build
build.init()
from vlib.vecoracle import *
from vlib.geom import *
d=json.load(open(sys.argv[1])); case=d["case"]; cfg=case["cfg"]
srcs=to_build_sources(case)
r=build.build_font(cfg,srcs)
font=r.font
rd=ColrReader(font)
rf=Ref(srcs[0]["svg"],cfg)
g,_=reach(font,srcs[0]["cps"])
impl=rd.tree(g)
a=list(leaves(impl))[0]; b=list(leaves(rf.tree))[0]
print(len(a.contours[0]), len(b.contours[0]))
from fontTools.pens.recordingPen import RecordingPen
rp=RecordingPen(); font.getGlyphSet()[a.tag].draw(rp); print(rp.value)
print([tuple(round(v,1) for v in p) for p in b.contours[0][::10]])
print(one_way(a.contours,b.contours,5), one_way(b.contours,a.contours,5))
