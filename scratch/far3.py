import sys, collections, logging
from hypothesis import given, settings, seed, HealthCheck
from vlib.props import c01
c01.setup_worker()
from nanoemoji import glyph_reuse
orig=glyph_reuse.GlyphReuseCache.try_reuse
def tr(self, path, *a, **k):
    r=orig(self, path, *a, **k)
    from picosvg.svg_reuse import normalize
    from picosvg.svg_types import SVGPath
    print("  try_reuse ->", r, "| known keys", len(self._reusable_paths))
    if r is None and self._reusable_paths:
        print("   key new :", normalize(SVGPath(d=path), self._normalize_tolerance).d[:200])
        for k_ in list(self._reusable_paths)[:2]: print("   key have:", k_[:200])
    return r
glyph_reuse.GlyphReuseCache.try_reuse=tr
n=[0]
@seed(5)
@settings(max_examples=60, database=None, deadline=None, suppress_health_check=list(HealthCheck))
@given(c01.far_reuse_case(["glyf_colr_1"], "quick"))
def t(case):
    cfg=case["cfg"]
    if cfg["upem"]!=4096 or n[0]>3: return
    n[0]+=1
    print("CASE", cfg["upem"], cfg["reuse_tolerance"], case["sources"][-1]["model"]["nodes"][-1]["tag"])
    v=c01.judge(case)
t()
