import json, sys
from vlib import build
build.init()
from vlib.vecoracle import *
from vlib.display import *
import vlib.display as D
d=json.load(open(sys.argv[1])); case=d["case"]; cfg=case["cfg"]
srcs=to_build_sources(case)
r=build.build_font(cfg,srcs)
font=r.font
i=d["detail"]["source"]
rf=Ref(srcs[i]["svg"],cfg)
g,_=reach(font,srcs[i]["cps"])
impl,_=impl_tree(font,g)
bud=Budget("otsvg",cfg["upem"],cfg["reuse_tolerance"],rf.scale*rf.user_norm)
print(d["detail"]); a=list(leaves(impl))[0]; b=list(leaves(rf.tree))[0]; print(a.paint, b.paint)
p=tuple(d["detail"]["detail"]["point"])
ti=a.paint.t(p); print("ti",ti, "tref", b.paint.t(p))
delta=bud.delta_for(a); print("delta",delta,"qerr",a.qerr, "eps_t", bud.eps_t(a.paint,ti,p))
import math
ts=[b.paint.t((p[0]+delta*math.cos(2*math.pi*k/16),p[1]+delta*math.sin(2*math.pi*k/16))) for k in range(16)]
print(min(ts),max(ts))
print(color_range(b.paint,p,delta,bud.eps_t,a.paint,ti))
