import sys, os, io
from vlib.props import c12, c13
from vlib.cli import Workspace, fonts_in
from fontTools.ttLib import TTFont
c12.setup_worker()
solid=lambda i:{"Format": 2, "PaletteIndex": i, "Alpha": 1.0}
third={"version":1,"npal":1,"paints":{"c0":{"Format":10,"Glyph":"sq","Paint":solid(0)},"c1":{"Format":10,"Glyph":"tri","Paint":solid(1)},"c2":{"Format":10,"Glyph":"ring","Paint":solid(0)}},"advs":{"c0":1000,"c1":1000,"c2":1000},"vbmode":"region","comp":[1,0,0,1,0,0],"unsupported":None,"interleave":True}
case={"kind":"third","third":third,"flags":{"bitmaps":True,"colr_version":1,"keep_glyph_names":True},"space":True,"layout":False,"post3":False}
data,_=c12.make_input(case)
f=TTFont(io.BytesIO(data)); print(f.getGlyphOrder())
with Workspace("x") as ws:
    ws.shims()
    ws.write("in.ttf", data)
    rc,out=ws.run(["maximum_color","--build_dir",ws.path("b"),"--bitmaps","--keep_glyph_names",ws.path("in.ttf")])
    print(rc, out[-300:] if rc else "")
    o=TTFont(ws.path("b","Font.ttf"))
    print(o.getGlyphOrder())
    for i,stk in enumerate(o["CBLC"].strikes):
        print("strike",i,stk.bitmapSizeTable.startGlyphIndex, stk.bitmapSizeTable.endGlyphIndex,[ist.names for ist in stk.indexSubTables])
    print([sorted(sd) for sd in o["CBDT"].strikeData])
v=c12.judge(case); print(v.failures[:3], v.rejected, v.discard)
