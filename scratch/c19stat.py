import hypothesis, collections
from hypothesis import given, settings, Phase, HealthCheck
from vlib.props import c19
c19.setup_worker()
st=collections.Counter()
@hypothesis.seed(7)
@settings(max_examples=300, database=None, deadline=None, phases=[Phase.generate], suppress_health_check=list(HealthCheck))
@given(c19.cases("quick"))
def t(case):
    v=c19.judge(case)
    if v.discard: return
    tol=case["cfg"]["reuse_tolerance"]; fmt=case["cfg"]["color_format"]
    bad=[f for f in v.failures if f[0]=="not-shared"]
    st[(tol,"total")]+=1
    if bad:
        mem=bad[0][2]["members"]; tags=collections.Counter(t for _,_,t in mem); main=tags.most_common(1)[0][0]
        kinds={k for _,k,t in mem if t!=main}
        st[(tol,"bad",tuple(sorted(kinds)))]+=1
        if tol==0.1 and not hasattr(t,"saved"):
            import json; json.dump({"case":case,"kind":"x","key":"x","detail":bad[0][2]},open("/tmp/c19case.json","w")); t.saved=1
t()
for k in sorted(st,key=str): print(k,st[k])
