import hypothesis
from hypothesis import given, settings, Phase, HealthCheck
from vlib.props import c01
c01.setup_worker()
seen=[]
@hypothesis.seed(1000)
@settings(max_examples=60, database=None, deadline=None, phases=[Phase.generate], suppress_health_check=list(HealthCheck))
@given(c01.cases("quick"))
def t(case):
    v=c01.judge(case)
    if v.discard: seen.append(case)
t()
print(len(seen))
for c in seen[:3]:
    print(len(c["sources"]), [len(s["model"]["nodes"]) for s in c["sources"]], c["cfg"]["transform"])
