from vlib.props import c15
from vlib.verdict import Verdict
case={"t":"set","colors":[[255,0,0,1.0,1],[255,0,0,0.5,1]],"perm":"rev-dup"}
v=c15.judge(case); print(v.failures, v.rejected)
