from vlib import build
build.init()
A='<svg xmlns="http://www.w3.org/2000/svg" viewBox="0 0 100 100"><defs/><path d="M10,10 L50,10 L50,50 Z" fill="red"/></svg>'
E='<svg xmlns="http://www.w3.org/2000/svg" viewBox="0 0 100 100"><defs/></svg>'
for fmt in ["glyf_colr_1","glyf_colr_0","picosvg","glyf"]:
    r=build.build_font({"color_format":fmt},[{"svg":A,"cps":[0xe000]},{"svg":E,"cps":[0xe001]}])
    print(fmt, r.error, sorted(r.font.keys()) if r.font else None)
