import json, sys
from vlib.props import c19
from picosvg.svg import SVG
from picosvg.svg_reuse import normalize
from picosvg.svg_types import SVGPath
from vlib.gen_svg import render, model_paths
d=json.load(open(sys.argv[1])); case=d["case"]; cfg=case["cfg"]
tol=cfg["reuse_tolerance"]
for s in case["sources"]:
    text=render(s["model"])
    svg=SVG.fromstring(text)
    for shp,p in zip(svg.shapes(), model_paths(s["model"])):
        if p["tag"].startswith("fam:"):
            print(p["tag"], shp.as_path().d[:60], "->", normalize(SVGPath(d=shp.as_path().d), tol/10).d[:70])
print(c19._classify_miss(case,cfg))
