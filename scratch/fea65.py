from vlib import build
build.init()
seq=[2205, 127999, 65, 9785, 10084, 3247, 128105, 15397, 8419, 8419, 1114110, 3247, 65, 2357]
from nanoemoji.glyph import glyph_name
print(glyph_name(seq), len(glyph_name(seq)))
A='<svg xmlns="http://www.w3.org/2000/svg" viewBox="0 0 100 100"><defs/><path d="M10,10 L50,10 L50,50 Z" fill="red"/></svg>'
r=build.build_font({"color_format":"glyf_colr_1","keep_glyph_names":True},[{"svg":A,"cps":seq}])
print(repr(r.error)[:300])
