from vlib.props import c04
c04.setup_worker()
case={"cfg":{"upem":1000,"ascender":950,"descender":-250,"width":1275,"linegap":0,"color_format":"picosvg","keep_glyph_names":True,"bitmap_resolution":32},
      "seqs":[[0x1F600],[0x1F601],[0x1F602],[0x1F603]],"aspect":1.0,"share":[True,False,True,False]}
v=c04.judge(case)
print(v.failures[:4])
