import json, sys
from vlib.props import c01
from vlib import build
from vlib.vecoracle import Ref, to_build_sources, source_text
from vlib.display import leaves
from vlib.geom import exact_bounds
c01.setup_worker()
d=json.load(open(sys.argv[1])); case=d["case"]
print(source_text(case["sources"][0]))
v=c01.judge(case)
print(v.failures[:1] if hasattr(v,'failures') else v.__dict__.keys())
srcs=to_build_sources(case)
r=build.build_font(case["cfg"], srcs)
from fontTools.ttLib.tables.otTables import Paint
from vlib.ref_colr import ColrReader
rd=ColrReader(r.font)
for g in rd.base: 
    t=rd.tree(g)
    for lf in leaves(t): print(g, lf.bounds, lf.paint)
import io
from fontTools.ttLib import TTFont
r.font["COLR"].table.BaseGlyphList.BaseGlyphPaintRecord[0].Paint
from fontTools.misc.testTools import getXML
print("\n".join(getXML(r.font["COLR"].toXML))[:3000])
