import hypothesis, traceback
from hypothesis import given, settings, Phase, HealthCheck
from vlib.props import c13
c13.setup_worker()
@hypothesis.seed(1)
@settings(max_examples=3, database=None, deadline=None, phases=[Phase.generate], suppress_health_check=list(HealthCheck))
@given(c13.cases("quick"))
def t(case):
    try: c13.build_case_font(case)
    except Exception: traceback.print_exc(limit=-4)
t()
