import traceback
from vlib import build
build.init()
from nanoemoji.parts import ReusableParts
from picosvg.geometric_types import Rect
from picosvg.svg import SVG
for tol in (0.1,-1,0.5):
  for vb in (24,100,36.5):
    try:
        parts = ReusableParts(view_box=Rect(0, 0, 100, 100), reuse_tolerance=tol)
        svg = SVG.fromstring('<svg xmlns="http://www.w3.org/2000/svg" viewBox="0 0 %g %g"><defs/><path d="M2,2 L8,2 L8,8 Z"/><path d="M12,2 L18,2 L18,8 Z"/></svg>'%(vb,vb))
        parts.add(svg); parts.compute_donors(); print(tol,vb,"ok",len(parts.shape_sets))
    except Exception as e:
        print(tol,vb,type(e).__name__); traceback.print_exc(limit=-3)
