import sys, collections
from hypothesis import given, settings, seed, HealthCheck
from vlib.props import c19
from vlib.gen_svg import model_paths
c19.setup_worker()
cnt=collections.Counter()
@seed(3)
@settings(max_examples=400, database=None, deadline=None, suppress_health_check=list(HealthCheck))
@given(c19.family_case("quick").filter(lambda c: len(c["sources"])>=4 and c["cfg"]["color_format"]=="picosvg"))
def t(case):
    v=c19.judge(case)
    cnt["n"]+=1
    # pattern stats
    famg=[i for i,s in enumerate(case["sources"]) if any(p["tag"].startswith("fam:") for p in model_paths(s["model"]))]
    cnt["famglyphs=%d"%len(famg)]+=1
    for f in v.failures[:1]: cnt[f[0]+":"+f[1][:40]]+=1
    if v.rejected: cnt["rej"]+=1
    if v.discard: cnt["disc"]+=1
t()
print(cnt)
