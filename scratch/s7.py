from vlib.props import c12
c12.setup_worker()
solid={"Format":2,"PaletteIndex":0,"Alpha":1.0}
for space in (True, False):
  for ver in (1,0):
    third={"version":ver,"npal":1,"paints":{"c0":([("c0",0),("tri",1)] if ver==0 else {"Format":1,"Layers":[{"Format":10,"Glyph":"c0","Paint":solid},{"Format":10,"Glyph":"tri","Paint":dict(solid,PaletteIndex=1)}]}),
        "c1":([("sq",1)] if ver==0 else {"Format":10,"Glyph":"sq","Paint":dict(solid,PaletteIndex=1)})},"advs":{"c0":1000,"c1":800},"vbmode":"region","comp":[1,0,0,1,0,0],"unsupported":None,"own_outline":True}
    case={"kind":"third","third":third,"flags":{"bitmaps":False,"colr_version":1,"keep_glyph_names":False},"space":space,"layout":False,"post3":False}
    v=c12.judge(case); print("space",space,"v",ver,[(k,key) for k,key,_ in v.failures], v.discard, v.rejected)
    if v.failures: print(str(v.failures[0][2])[:600])
