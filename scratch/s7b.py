from vlib.props import c12
c12.setup_worker()
for space in (True, False):
  for ver in (1,0):
    case={"kind":"selfonly","n":2,"version":ver,"space":space,"flags":{"bitmaps":False,"colr_version":1,"keep_glyph_names":False}}
    v=c12.judge(case); print("space",space,"v",ver,[(k,key) for k,key,_ in v.failures], v.discard, v.rejected)
    if v.failures: print(str(v.failures[0][2])[:500])
