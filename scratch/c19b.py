import json, sys, traceback
from vlib.props import c19
from vlib import build
from vlib.vecoracle import to_build_sources
c19.setup_worker()
d=json.load(open(sys.argv[1])); case=d["case"]
srcs=to_build_sources(case)
print(case["sources"][0]["model"]["vb"])
for tolv in (case["cfg"]["reuse_tolerance"], -1):
    cfg=dict(case["cfg"], reuse_tolerance=tolv)
    r=build.build_font(cfg, srcs)
    print("tol",tolv,"error",repr(r.error)[:200])
    if r.error is None:
        t=r.font["COLR"].table
        for g,c in t.ClipList.clips.items(): print(g, c.xMin,c.yMin,c.xMax,c.yMax)
# inspect the ufo-level paints with reuse on
from nanoemoji import write_font
import nanoemoji.write_font as wf
orig=wf._bounds
def b(color_glyph, q):
    r=orig(color_glyph,q); print("bounds", color_glyph.ufo_glyph_name, r); 
    for root in color_glyph.painted_layers: print("   ", repr(root)[:600])
    return r
wf._bounds=b
r=build.build_font(case["cfg"], srcs)
