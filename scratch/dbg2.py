import json, sys
from vlib import build
build.init()
from vlib.vecoracle import *
from vlib.display import describe
d=json.load(open(sys.argv[1])); case=d["case"]; cfg=case["cfg"]
srcs=to_build_sources(case)
r=build.build_font(cfg,srcs)
font=r.font
rd=ColrReader(font)
for i,s in enumerate(srcs):
    rf=Ref(s["svg"],cfg)
    g,_=reach(font,s["cps"])
    print(i,g); print("\n".join(describe(rd.tree(g)))); print(" ref"); print("\n".join(describe(rf.tree)))
from fontTools.pens.recordingPen import RecordingPen
for gn in font.getGlyphOrder():
    rp=RecordingPen(); font.getGlyphSet()[gn].draw(rp); print(gn, rp.value[:6])
