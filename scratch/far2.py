import sys, collections
from hypothesis import given, settings, seed, HealthCheck
from vlib.props import c01
c01.setup_worker()
cnt=collections.Counter()
@seed(5)
@settings(max_examples=300, database=None, deadline=None, suppress_health_check=list(HealthCheck))
@given(c01.far_reuse_case(c01.FORMATS, "quick"))
def t(case):
    v=c01.judge(case)
    cfg=case["cfg"]
    d=case["sources"][-1]["model"]["nodes"][-1]["d"]
    from vlib.gen_svg import cmds_bbox
    b=cmds_bbox(d); vb=case["sources"][0]["model"]["vb"][2]
    size=max(b[2]-b[0],b[3]-b[1])*(cfg["ascender"]-cfg["descender"])/vb
    key=(cfg["upem"], "sz<%d"%(2**int(size).bit_length()), cfg["reuse_tolerance"])
    cnt[key+("n",)]+=1
    if "reuse-fired" in v.classes: cnt[key+("fired",)]+=1
    if any(f[0]=="GRADIENT" for f in v.failures): cnt[key+("FAIL",)]+=1
t()
for k in sorted(cnt): print(k,cnt[k])
