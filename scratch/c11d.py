import json, sys, io, os, tempfile
from pathlib import Path
from fontTools.ttLib import TTFont
from vlib.props import c11
from vlib.layoutsem import base_sem
from nanoemoji.util import load_fully
from nanoemoji.reorder_glyphs import reorder_glyphs
d=json.load(open(sys.argv[1])); case=d["case"]
data=c11.build_font_for(case)
ref=TTFont(io.BytesIO(data), lazy=False)
b0=base_sem(ref)["outlines"]
new=[".notdef"]+case["perm"]
for how in range(4):
    if how==0:
        fd,tmp=tempfile.mkstemp(suffix=".otf"); os.write(fd,data); os.close(fd); font=load_fully(Path(tmp))
    else:
        font=load_fully(TTFont(io.BytesIO(data), lazy={1:True,2:None,3:False}[how]))
    reorder_glyphs(font,new)
    buf=io.BytesIO(); font.save(buf)
    after=TTFont(io.BytesIO(buf.getvalue()), lazy=False)
    b1=base_sem(after)["outlines"]
    bad=[g for g in b0 if b0[g]!=b1.get(g)]
    print("how",how,"flavour",case.get("flavour"),"changed outlines:",bad[:6], "order ok", after.getGlyphOrder()==new)
