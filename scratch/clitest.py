import shutil, time
from vlib.cli import *
with Workspace("t") as ws:
    ws.shims()
    shutil.copy("/repo/tests/rect.svg", ws.path("emoji_u1f600.svg")); shutil.copy("/repo/tests/one-o-clock.svg", ws.path("emoji_u1f601.svg"))
    t=time.time(); rc,out=ws.run(["nanoemoji","--build_dir","b","emoji_u1f600.svg","emoji_u1f601.svg"], ninja_j=2); print(rc, time.time()-t, fonts_in(ws.path("b")), sha(ws.path("b/Font.ttf"))[:12])
    rc,out=ws.run(["nanoemoji","--build_dir","b","emoji_u1f600.svg","emoji_u1f601.svg","--upem","2000"], fault="nanoemoji.write_font:truncate_kill"); print(rc, ws.fault_fired(), tail(out,3))
    rc,out=ws.run(["nanoemoji","--build_dir","b","emoji_u1f600.svg","emoji_u1f601.svg","--upem","2000"]); print(rc, sha(ws.path("b/Font.ttf"))[:12])
    rc,out=ws.run(["nanoemoji","--build_dir","b","emoji_u1f600.svg","emoji_u1f601.svg","--upem","1000"], fault="driver:driver_truncate_ninja"); print(rc, ws.fault_fired())
    rc,out=ws.run(["nanoemoji","--build_dir","b","emoji_u1f600.svg","emoji_u1f601.svg","--upem","1000"]); print(rc, sha(ws.path("b/Font.ttf"))[:12])
