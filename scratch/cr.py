from vlib.display import Grad
g=Grad("L",((0,0),(1,0),(0,1)),[(0.05,(212.0,31.0,201.0),0.296),(0.05,(96.0,167.0,5.0),0.889),(0.05,(101.0,115.0,97.0),0.889),(0.78,(247.0,225.0,122.0),0.889)],"repeat",domain="svg")
print(g.color_range_t(2.06,2.075))
print(g.color_at_t(2.0687), g.color_at_t(2.06))
print(g._ramp(0.0687))
