import json, sys
from vlib.gen_svg import render
d=json.load(open(sys.argv[1]))
print(d["kind"], d["key"], json.dumps(d["detail"])[:800])
print(" cfg", d["case"]["cfg"])
for s in d["case"]["sources"]:
    print("  cps",s["cps"], (render(s["model"]) if "model" in s else s.get("svg",""))[:int(sys.argv[2]) if len(sys.argv)>2 else 1500])
